(* Model/Namespaces.v — @namespace rules, the namespaces mapping view and
   namespaced selectors of a CSSStyleSheet.

   cssutils/util.py _Namespaces (namespaces property, __setitem__,
   __delitem__, __findrule, prefixForNamespaceURI), _SimpleNamespaces;
   css/cssstylesheet.py _cleanNamespaces, _getUsedURIs, deleteRule (guard),
   insertRule (@namespace branch); css/cssnamespacerule.py _setPrefix;
   css/selector.py New.append (prefix -> URI), _getUsedUris;
   serialize.py do_css_Selector (URI -> prefix).

   A sheet is the ordered rule list.  Only what namespaces need is kept:
   an optional leading @charset, @namespace rules (prefix, uri), style rules
   (top level or the single child of an @media rule) with their selectors.
   A selector is the list of its namespace-relevant items in source order.
   The model follows the tree with fixes/C15-*.patch applied
   (__delitem__ deletes the rule it found).  No proofs here. *)
From Coq Require Import List NArith Bool Arith.
From CssV Require Import Base.Regex Base.Chars.
Import ListNotations.
Local Open Scope N_scope.

(* ---------- Python dict {prefix: uri} (insertion ordered) ---------- *)
Definition dict := list (str * str).

Fixpoint lookup (d : dict) (k : str) : option str :=
  match d with
  | [] => None
  | (k', v) :: r => if str_eqb k k' then Some v else lookup r k
  end.

Fixpoint dict_set (d : dict) (k v : str) : dict :=
  match d with
  | [] => [(k, v)]
  | (k', v') :: r => if str_eqb k k' then (k', v) :: r else (k', v') :: dict_set r k v
  end.

(* {k: v for (k, v) in l} *)
Definition dict_of (l : list (str * str)) : dict :=
  fold_left (fun d kv => dict_set d (fst kv) (snd kv)) l [].

(* _Namespaces.prefixForNamespaceURI: first item whose value is the URI *)
Fixpoint prefix_for (d : dict) (u : str) : option str :=
  match d with
  | [] => None
  | (p, u') :: r => if str_eqb u u' then Some p else prefix_for r u
  end.

Definition has_key (d : dict) (k : str) : bool :=
  match lookup d k with Some _ => true | None => false end.
Definition has_item (d : dict) (p u : str) : bool :=
  existsb (fun kv => str_eqb p (fst kv) && str_eqb u (snd kv)) d.
Definition has_value (d : dict) (u : str) : bool :=
  existsb (fun kv => str_eqb u (snd kv)) d.

(* ---------- selectors ---------- *)
Inductive kind := KType | KUniv | KAttr.

(* the namespace component stored in Selector.seq tuples *)
Inductive nsref :=
| RNone              (* None: no prefix, and no default namespace at parse time *)
| RAny               (* cssutils._ANYNS: "*|" *)
| REmpty             (* '': "|name" *)
| RUri (u : str).    (* explicit prefix, or the default namespace at parse time *)

Inductive sitem :=
| SNs (k : kind) (r : nsref) (n : str)   (* (namespaceURI, name) tuple *)
| SPlain (n : str).                      (* attribute without / with empty prefix: plain string *)
Definition selector := list sitem.

(* selector text, abstracted to its namespace-relevant items *)
Inductive pspec := PNo | PStar | PEmpty | PPfx (p : str).
Definition titem := (kind * pspec * str)%type.
Definition seltext := list titem.

(* New.append: resolution of one item against a namespaces mapping *)
Definition resolve_item (m : dict) (t : titem) : option sitem :=
  match t with
  | (KAttr, PNo, n) => Some (SPlain n)
  | (KAttr, PEmpty, n) => Some (SPlain n)
  | (k, PStar, n) => Some (SNs k RAny n)
  | (k, PNo, n) => Some (SNs k (match lookup m [] with Some u => RUri u | None => RNone end) n)
  | (k, PEmpty, n) => Some (SNs k REmpty n)
  | (k, PPfx p, n) => match lookup m p with
                      | Some u => Some (SNs k (RUri u) n)
                      | None => None          (* NamespaceErr *)
                      end
  end.

Fixpoint resolve (m : dict) (t : seltext) : option selector :=
  match t with
  | [] => Some []
  | x :: r => match resolve_item m x, resolve m r with
              | Some i, Some l => Some (i :: l)
              | _, _ => None
              end
  end.

Fixpoint resolve_list (m : dict) (ts : list seltext) : option (list selector) :=
  match ts with
  | [] => Some []
  | x :: r => match resolve m x, resolve_list m r with
              | Some i, Some l => Some (i :: l)
              | _, _ => None
              end
  end.

(* do_css_Selector: one item back to text *)
Definition mk_pspec (p : str) : pspec := match p with [] => PEmpty | _ => PPfx p end.

Definition ser_item (m : dict) (i : sitem) : titem :=
  match i with
  | SPlain n => (KAttr, PNo, n)
  | SNs k r n =>
    let d := lookup m [] in
    let same_as_default :=
        match r, d with
        | RUri u, Some du => str_eqb du u
        | RNone, None => true
        | _, _ => false
        end in
    if same_as_default then (k, PNo, n)
    else match r with
         | RAny => (k, PStar, n)
         | RUri u => match prefix_for m u with
                     | Some p => (k, mk_pspec p, n)
                     | None => (k, PEmpty, n)       (* IndexError -> '' *)
                     end
         | RNone => (k, PEmpty, n)                  (* prefixForNamespaceURI(None) fails -> '' *)
         | REmpty => (k, PEmpty, n)
         end
  end.
Definition ser_sel (m : dict) (s : selector) : seltext := map (ser_item m) s.

(* ---------- the sheet ---------- *)
Inductive rule :=
| RCharset
| RNs (p u : str)
| RStyle (media : bool) (sels : list selector).
Definition sheet := list rule.

Definition ns_of (r : rule) : list (str * str) :=
  match r with RNs p u => [(p, u)] | _ => [] end.
Definition ns_list (s : sheet) : list (str * str) := flat_map ns_of s.
Definition is_ns (r : rule) : bool := match r with RNs _ _ => true | _ => false end.
Definition is_style (r : rule) : bool := match r with RStyle _ _ => true | _ => false end.
Definition is_charset (r : rule) : bool := match r with RCharset => true | _ => false end.

(* more_itertools.unique_everseen(key=namespaceURI) *)
Fixpoint uniq_by_uri (l : list (str * str)) (seen : list str) : list (str * str) :=
  match l with
  | [] => []
  | (p, u) :: r => if existsb (str_eqb u) seen then uniq_by_uri r seen
                   else (p, u) :: uniq_by_uri r (u :: seen)
  end.

(* _Namespaces.namespaces *)
Definition effective (s : sheet) : list (str * str) := uniq_by_uri (rev (ns_list s)) [].
Definition view (s : sheet) : dict := dict_of (effective s).

Definition ser_selector (s : sheet) (sel : selector) : seltext := ser_sel (view s) sel.

(* _getUsedUris as written: "a or b and c and d" makes every '-selector'
   item contribute val[0], which for a plain attribute name is its first
   character *)
Definition item_uses (u : str) (i : sitem) : bool :=
  match i with
  | SPlain (c :: _) => str_eqb u [c]
  | SPlain [] => false
  | SNs _ (RUri u') _ => str_eqb u u'
  | SNs _ _ _ => false
  end.
Definition rule_items (r : rule) : list sitem :=
  match r with RStyle _ sels => concat sels | _ => [] end.
Definition all_items (s : sheet) : list sitem := flat_map rule_items s.
Definition uses_uri (u : str) (s : sheet) : bool := existsb (item_uses u) (all_items s).

Definition count_uri (u : str) (s : sheet) : nat :=
  length (filter (fun pu => str_eqb u (snd pu)) (ns_list s)).

Inductive res := Ok | ENoMod | ENamespace | EIndex | EHier | ESyntax.

Fixpoint remove_nth {A} (i : nat) (l : list A) : list A :=
  match l, i with
  | [], _ => []
  | _ :: r, O => r
  | x :: r, S k => x :: remove_nth k r
  end.

Fixpoint insert_at {A} (i : nat) (x : A) (l : list A) : list A :=
  match i, l with
  | O, _ => x :: l
  | S k, y :: r => y :: insert_at k x r
  | S _, [] => [x]
  end.

(* the guard of CSSStyleSheet.deleteRule *)
Definition guarded (u : str) (s : sheet) : bool :=
  uses_uri u s && Nat.eqb (count_uri u s) 1.

Definition delete_rule (s : sheet) (i : nat) : sheet * res :=
  match nth_error s i with
  | None => (s, EIndex)
  | Some (RNs p u) => if guarded u s then (s, ENoMod) else (remove_nth i s, Ok)
  | Some _ => (remove_nth i s, Ok)
  end.

(* _cleanNamespaces: items are computed once; each deletion goes through
   deleteRule, whose guard may raise and abort the loop *)
Fixpoint clean_loop (items : dict) (done todo : list rule) : sheet * res :=
  match todo with
  | [] => (done, Ok)
  | RNs p u :: r =>
    if has_item items p u then clean_loop items (done ++ [RNs p u]) r
    else if guarded u (done ++ todo) then (done ++ todo, ENoMod)
         else clean_loop items done r
  | x :: r => clean_loop items (done ++ [x]) r
  end.
Definition clean (s : sheet) : sheet * res := clean_loop (view s) [] s.

(* insertRule(..., inOrder=True) position of an @namespace rule *)
Fixpoint last_ns_end (s : sheet) (i : nat) (acc : option nat) : option nat :=
  match s with
  | [] => acc
  | r :: t => last_ns_end t (S i) (if is_ns r then Some (S i) else acc)
  end.
Fixpoint first_style (s : sheet) (i : nat) : nat :=
  match s with
  | [] => i
  | r :: t => if is_style r then i else first_style t (S i)
  end.
Definition inorder_index (s : sheet) : nat :=
  match last_ns_end s 0 None with
  | Some i => i
  | None => first_style s 0
  end.

(* the insertion is undone when the clean-up is refused (the rule list is
   saved before the insertion and put back) *)
Definition clean_or_restore (s s' : sheet) : sheet * res :=
  match clean s' with
  | (t, Ok) => (t, Ok)
  | (_, e) => (s, e)
  end.

Definition insert_ns (s : sheet) (p u : str) (idx : option nat) : sheet * res :=
  let pos : nat + res :=
      match idx with
      | None => match u with [] => inr ESyntax | _ => inl (inorder_index s) end
      | Some i =>
        if Nat.ltb (length s) i then inr EIndex
        else match u with
             | [] => inr ESyntax                     (* rule not wellformed *)
             | _ => if existsb is_charset (skipn i s) then inr EHier
                    else if existsb is_style (firstn i s) then inr EHier
                    else inl i
             end
      end in
  match pos with
  | inr e => (s, e)
  | inl i =>
    match lookup (view s) p with
    | Some u' => if str_eqb u' u then (s, Ok)       (* "no doublettes" *)
                 else clean_or_restore s (insert_at i (RNs p u) s)
    | None => clean_or_restore s (insert_at i (RNs p u) s)
    end
  end.

(* __findrule: the last @namespace rule with this prefix (index, uri) *)
Fixpoint find_last_ns (s : sheet) (p : str) (i : nat) (acc : option (nat * str)) : option (nat * str) :=
  match s with
  | [] => acc
  | RNs p' u :: r => find_last_ns r p (S i) (if str_eqb p p' then Some (i, u) else acc)
  | _ :: r => find_last_ns r p (S i) acc
  end.

(* namespaces[p] = u *)
Definition ns_set (s : sheet) (p u : str) : sheet * res :=
  match find_last_ns s p 0 None with
  | None => insert_ns s p u None
  | Some (_, ur) =>
    if has_key (view s) p then (if str_eqb ur u then (s, Ok) else (s, ENoMod))
    else (s, Ok)
  end.

(* del namespaces[p]  (fixes/C15-delitem-index.patch: the found rule itself) *)
Definition ns_del (s : sheet) (p : str) : sheet * res :=
  match find_last_ns s p 0 None with
  | None => (s, ENamespace)
  | Some (i, _) => delete_rule s i
  end.

(* k-th @namespace rule: rule.prefix = p *)
Fixpoint set_prefix (s : sheet) (k : nat) (p : str) : sheet :=
  match s with
  | [] => []
  | RNs p' u :: r => match k with
                     | O => RNs p u :: r
                     | S k' => RNs p' u :: set_prefix r k' p
                     end
  | x :: r => x :: set_prefix r k p
  end.

(* i-th style rule: rule.selectorText = ... *)
Fixpoint set_sels (s : sheet) (i : nat) (sels : list selector) : sheet :=
  match s with
  | [] => []
  | RStyle m old :: r => match i with
                         | O => RStyle m sels :: r
                         | S i' => RStyle m old :: set_sels r i' sels
                         end
  | x :: r => x :: set_sels r i sels
  end.

Inductive op :=
| ONsSet (p u : str)
| ONsDel (p : str)
| OInsNs (p u : str) (idx : option nat)
| ODelRule (i : nat)
| OAddStyle (media : bool) (ts : list seltext)
| OSetSel (i : nat) (ts : list seltext)
| OSetPrefix (k : nat) (p : str)
| OAttach (media : bool) (d : dict) (ts : list seltext).

Definition step (s : sheet) (o : op) : sheet * res :=
  match o with
  | ONsSet p u => ns_set s p u
  | ONsDel p => ns_del s p
  | OInsNs p u idx => insert_ns s p u idx
  | ODelRule i => delete_rule s i
  | OAddStyle m ts => match resolve_list (view s) ts with
                      | Some sels => (s ++ [RStyle m sels], Ok)
                      | None => (s, ENamespace)
                      end
  | OSetSel i ts => match resolve_list (view s) ts with
                    | Some sels => (set_sels s i sels, Ok)
                    | None => (s, ENamespace)
                    end
  | OSetPrefix k p => (set_prefix s k p, Ok)
  | OAttach m d ts => match resolve_list d ts with
                      | Some sels => (s ++ [RStyle m sels], Ok)
                      | None => (s, ENamespace)
                      end
  end.

Definition step_state (s : sheet) (o : op) : sheet := fst (step s o).
Definition run (ops : list op) (s : sheet) : sheet := fold_left step_state ops s.

(* ---------- flat interface ---------- *)
Definition dec (A : Type) := list N -> option (A * list N).

Fixpoint take_n (n : nat) (l : list N) : option (str * list N) :=
  match n, l with
  | O, _ => Some ([], l)
  | S k, x :: r => match take_n k r with Some (a, b) => Some (x :: a, b) | None => None end
  | S _, [] => None
  end.
Definition d_str : dec str := fun l =>
  match l with n :: r => take_n (N.to_nat n) r | [] => None end.
Definition d_nat : dec nat := fun l =>
  match l with n :: r => Some (N.to_nat n, r) | [] => None end.

Fixpoint d_rep {A} (f : dec A) (n : nat) (l : list N) : option (list A * list N) :=
  match n with
  | O => Some ([], l)
  | S k => match f l with
           | None => None
           | Some (a, r) => match d_rep f k r with
                            | None => None
                            | Some (t, r') => Some (a :: t, r')
                            end
           end
  end.
Definition d_list {A} (f : dec A) : dec (list A) := fun l =>
  match l with n :: r => d_rep f (N.to_nat n) r | [] => None end.

Definition d_kind (n : N) : kind := match n with 0 => KType | 1 => KUniv | _ => KAttr end.
Definition d_titem : dec titem := fun l =>
  match l with
  | k :: 3 :: r => match d_str r with
                   | Some (p, r1) => match d_str r1 with
                                     | Some (n, r2) => Some ((d_kind k, PPfx p, n), r2)
                                     | None => None
                                     end
                   | None => None
                   end
  | k :: c :: r => match d_str r with
                   | Some (n, r2) => Some ((d_kind k, match c with 0 => PNo | 1 => PStar | _ => PEmpty end, n), r2)
                   | None => None
                   end
  | _ => None
  end.
Definition d_seltext : dec seltext := d_list d_titem.
Definition d_pair : dec (str * str) := fun l =>
  match d_str l with
  | Some (p, r) => match d_str r with Some (u, r') => Some ((p, u), r') | None => None end
  | None => None
  end.

Definition d_op : dec op := fun l =>
  match l with
  | 0 :: r => match d_pair r with Some ((p, u), r') => Some (ONsSet p u, r') | None => None end
  | 1 :: r => match d_str r with Some (p, r') => Some (ONsDel p, r') | None => None end
  | 2 :: r => match d_pair r with
              | Some ((p, u), i :: r') => Some (OInsNs p u (if i =? 255 then None else Some (N.to_nat i)), r')
              | _ => None
              end
  | 3 :: i :: r => Some (ODelRule (N.to_nat i), r)
  | 4 :: m :: r => match d_list d_seltext r with
                   | Some (ts, r') => Some (OAddStyle (negb (m =? 0)) ts, r')
                   | None => None
                   end
  | 5 :: i :: r => match d_list d_seltext r with
                   | Some (ts, r') => Some (OSetSel (N.to_nat i) ts, r')
                   | None => None
                   end
  | 6 :: k :: r => match d_str r with Some (p, r') => Some (OSetPrefix (N.to_nat k) p, r') | None => None end
  | 7 :: m :: r => match d_list d_pair r with
                   | Some (d, r1) => match d_list d_seltext r1 with
                                     | Some (ts, r') => Some (OAttach (negb (m =? 0)) (dict_of d) ts, r')
                                     | None => None
                                     end
                   | None => None
                   end
  | _ => None
  end.

Definition e_str (s : str) : list N := Nlen s :: s.
Definition e_len {A} (l : list A) : N := N.of_nat (length l).
Definition e_kind (k : kind) : N := match k with KType => 0 | KUniv => 1 | KAttr => 2 end.
Definition e_sitem (i : sitem) : list N :=
  match i with
  | SPlain n => 0 :: e_str n
  | SNs k RNone n => [1; e_kind k; 0] ++ e_str n
  | SNs k RAny n => [1; e_kind k; 1] ++ e_str n
  | SNs k REmpty n => [1; e_kind k; 2] ++ e_str n
  | SNs k (RUri u) n => [1; e_kind k; 3] ++ e_str u ++ e_str n
  end.
Definition e_titem (t : titem) : list N :=
  match t with
  | (k, PNo, n) => [e_kind k; 0] ++ e_str n
  | (k, PStar, n) => [e_kind k; 1] ++ e_str n
  | (k, PEmpty, n) => [e_kind k; 2] ++ e_str n
  | (k, PPfx p, n) => [e_kind k; 3] ++ e_str p ++ e_str n
  end.
Definition e_pair (pu : str * str) : list N := e_str (fst pu) ++ e_str (snd pu).
Definition e_sel (m : dict) (sel : selector) : list N :=
  e_len sel :: flat_map e_sitem sel ++ flat_map e_titem (ser_sel m sel).
Definition e_rule (m : dict) (r : rule) : list N :=
  match r with
  | RCharset => [0]
  | RNs p u => 1 :: e_pair (p, u)
  | RStyle md sels => [2; if md then 1 else 0; e_len sels] ++ flat_map (e_sel m) sels
  end.
Definition e_res (r : res) : N :=
  match r with Ok => 0 | ENoMod => 1 | ENamespace => 2 | EIndex => 3 | EHier => 4 | ESyntax => 5 end.

Definition observe (s : sheet) : list N :=
  let m := view s in
  e_len m :: flat_map e_pair m ++ e_len s :: flat_map (e_rule m) s.

Fixpoint run_flat (fuel : nat) (s : sheet) (l : list N) : list N :=
  match fuel with
  | O => []
  | S fu =>
    match l with
    | [] => []
    | _ => match d_op l with
           | None => [777777]
           | Some (o, r) => let (s', rs) := step s o in
                            e_res rs :: observe s' ++ run_flat fu s' r
           end
    end
  end.

(* input: charset flag (0/1), the initial @namespace rules as a counted list
   of (prefix, uri) pairs, then the operations *)
(* ENTRY 150 entry_namespaces *)
Definition entry_namespaces (args : list N) : list N :=
  match args with
  | c :: r => match d_list d_pair r with
              | Some (init, r') =>
                let s0 := (if c =? 0 then [] else [RCharset]) ++ map (fun pu => RNs (fst pu) (snd pu)) init in
                observe s0 ++ run_flat (S (length r')) s0 r'
              | None => [777777]
              end
  | [] => [777777]
  end.

(* single-function probes for the harness: resolve and serialise against a dict *)
(* ENTRY 151 entry_resolve *)
Definition entry_resolve (args : list N) : list N :=
  match d_list d_pair args with
  | Some (d, r) => match d_seltext r with
                   | Some (t, _) => match resolve (dict_of d) t with
                                    | Some sel => 1 :: e_sel (dict_of d) sel
                                    | None => [0]
                                    end
                   | None => [777777]
                   end
  | None => [777777]
  end.
