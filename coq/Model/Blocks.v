(* Model/Blocks.v — the two dispatch loops that cut a token stream into
   constructs: the declaration loop of CSSStyleDeclaration._setCssText and the
   statement loop of CSSStyleSheet._setCssText (both are Base._parse with
   callbacks that consume tokens through _tokensupto2); and the three-way
   split of Property._setCssText.  What the callbacks then do with each piece
   (selector / value / rule parsers) is outside this model.  No proofs here. *)
From Coq Require Import List NArith ZArith Bool.
From CssV Require Import Base.Regex Base.Chars Base.Tokens Model.Slice.
Import ListNotations.

(* ---- declaration block ---- *)
Inductive devent :=
| DProp (toks : list tok)          (* handed to Property.cssText (trailing ; removed) *)
| DSemi                            (* stripped standalone semicolon *)
| DUnexpected (toks : list tok)    (* ignored up to the end of the bad declaration *)
| DComment (t : tok)
| DAtRule (toks : list tok)        (* handed to CSSUnknownRule *)
| DEof.

Definition strip_semi (l : list tok) : list tok :=
  match rev l with
  | t :: r => if is_char 59 t then rev r else l
  | [] => l
  end.

Fixpoint decl_loop (fuel : nat) (toks : list tok) : list devent * bool :=
  match fuel with
  | O => ([], false)
  | S fu =>
    match toks with
    | [] => ([], true)
    | t :: r =>
      let slice m := tokensupto2 m (Some t) r in
      let continue_ (ev : list devent) (rest : list tok) :=
        let (evs, ok) := decl_loop fu rest in (ev ++ evs, ok) in
      match ty t with
      | T_IDENT => let (a, b) := slice MSemicolon in continue_ [DProp (strip_semi a)] b
      | T_CHAR =>
        if is_char 59 t then continue_ [DSemi] r
        else let (a, b) := slice MPropValue in continue_ [DUnexpected a] b
      | T_COMMENT => continue_ [DComment t] r
      | T_S => continue_ [] r
      | T_EOF => continue_ [DEof] r
      | T_ATKEYWORD => let (a, b) := slice MDefault in continue_ [DAtRule a] b
      | _ => let (a, b) := slice MPropValue in continue_ [DUnexpected a] b
      end
    end
  end.

Definition decl_split (toks : list tok) : list devent := fst (decl_loop (S (length toks)) toks).

(* ---- Property._setCssText: name : value [! priority] ---- *)
Definition prop_split (toks : list tok) : list tok * list tok * list tok :=
  let (name, r1) := tokensupto2 MPropName None toks in
  let (value, r2) := tokensupto2 MPropValue None r1 in
  let (prio, _) := tokensupto2 MPropPrio None r2 in
  (name, value, prio).

(* ---- style sheet ---- *)
Inductive sevent :=
| SComment (t : tok)
| SStmt (toks : list tok).          (* one statement, dispatched on the type of its first token *)

Fixpoint sheet_loop (fuel : nat) (toks : list tok) : list sevent * bool :=
  match fuel with
  | O => ([], false)
  | S fu =>
    match toks with
    | [] => ([], true)
    | t :: r =>
      let continue_ (ev : list sevent) (rest : list tok) :=
        let (evs, ok) := sheet_loop fu rest in (ev ++ evs, ok) in
      match ty t with
      | T_S | T_CDO | T_CDC | T_EOF => continue_ [] r
      | T_COMMENT => continue_ [SComment t] r
      | _ => let (a, b) := tokensupto2 MDefault (Some t) r in continue_ [SStmt a] b
      end
    end
  end.

Definition sheet_split (toks : list tok) : list sevent := fst (sheet_loop (S (length toks)) toks).

(* style rule: selector tokens up to {, declaration tokens up to the matching } *)
Definition rule_split (toks : list tok) : list tok * list tok * list tok :=
  let (sel, r1) := tokensupto2 MBlockStart None toks in
  let (body, r2) := tokensupto2 MBlockEnd None r1 in
  (sel, body, r2).

(* ---- flat interface ---- *)
Definition enc_len (l : list tok) : N := N.of_nat (length l).

(* args = tokens; result = per event: code, n_tokens *)
(* ENTRY 41 entry_decl_split *)
Definition entry_decl_split (args : list N) : list N :=
  let toks := decode_toks (S (length args)) args in
  let (evs, ok) := decl_loop (S (length toks)) toks in
  (if ok then 0 else 1)%N ::
  flat_map (fun e => match e with
                     | DProp l => [1; enc_len l]
                     | DSemi => [2; 0]
                     | DUnexpected l => [3; enc_len l]
                     | DComment _ => [4; 1]
                     | DAtRule l => [5; enc_len l]
                     | DEof => [6; 0]
                     end%N) evs.

(* ENTRY 42 entry_sheet_split *)
Definition entry_sheet_split (args : list N) : list N :=
  let toks := decode_toks (S (length args)) args in
  let (evs, ok) := sheet_loop (S (length toks)) toks in
  (if ok then 0 else 1)%N ::
  flat_map (fun e => match e with
                     | SComment _ => [4; 1]
                     | SStmt l => [7; enc_len l]
                     end%N) evs.

(* ENTRY 43 entry_prop_split *)
Definition entry_prop_split (args : list N) : list N :=
  let toks := decode_toks (S (length args)) args in
  let '(a, b, c) := prop_split toks in [enc_len a; enc_len b; enc_len c].
