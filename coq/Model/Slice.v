(* Model/Slice.v — Base._tokensupto2 of cssutils/util.py on token lists: the
   bracket-aware slicing every rule parser uses to cut its input.  Returns the
   tokens taken (incl. the start token and the end token) and the tokens left
   in the tokenizer.  No proofs here. *)
From Coq Require Import List NArith ZArith Bool.
From CssV Require Import Base.Regex Base.Chars Base.Tokens.
Import ListNotations.

Inductive mode :=
| MDefault | MBlockStart | MBlockEnd | MMediaEnd | MImportMQEnd | MMediaQEnd
| MSemicolon | MPropName | MPropValue | MPropPrio | MSelAttEnd | MFuncEnd | MListSep.

Record cnt := mkCnt { brace : Z; bracket : Z; parant : Z }.

Definition is_char (c : N) (t : tok) : bool :=
  match val t with [x] => (x =? c)%N | _ => false end.

(* an identifier written as \7b has the value { too: only a token that is not
   an identifier counts as the delimiter (util.py: `isident`) *)
Definition is_delim (c : N) (t : tok) : bool := is_char c t && negb (tokty_eqb (ty t) T_IDENT).

(* ends as characters, end token types, initial counters, mediaquery special *)
Definition mode_ends (m : mode) : list N :=
  match m with
  | MDefault => [59; 125]            (* ; } *)
  | MBlockStart | MMediaQEnd => [123]
  | MBlockEnd | MMediaEnd => [125]
  | MImportMQEnd | MSemicolon | MPropPrio => [59]
  | MPropName => [58; 59]
  | MPropValue => [59; 33]
  | MSelAttEnd => [93]
  | MFuncEnd => [41]
  | MListSep => [44]
  end%N.

Definition mode_endtypes (m : mode) : list tokty :=
  match m with MImportMQEnd | MMediaQEnd => [T_STRING] | _ => [] end.

Definition mode_init (m : mode) (start : option tok) : cnt :=
  match m with
  | MBlockStart | MMediaQEnd => mkCnt (-1) 0 0
  | MBlockEnd | MMediaEnd => mkCnt 1 0 0
  | MSelAttEnd =>
    match start with
    | Some t => if is_char 91 t then mkCnt 0 1 0 else mkCnt 0 0 0
    | None => mkCnt 0 0 0
    end
  | MFuncEnd => mkCnt 0 0 1
  | _ => mkCnt 0 0 0
  end%Z.

(* the start token only ever opens *)
Definition count_start (c : cnt) (t : tok) : cnt :=
  if is_delim 91 t then mkCnt (brace c) (bracket c + 1) (parant c)
  else if is_delim 123 t then mkCnt (brace c + 1) (bracket c) (parant c)
  else if is_delim 40 t || tokty_eqb (ty t) T_FUNCTION then mkCnt (brace c) (bracket c) (parant c + 1)
  else c.

Definition count_tok (c : cnt) (t : tok) : cnt :=
  if is_delim 123 t then mkCnt (brace c + 1) (bracket c) (parant c)
  else if is_delim 125 t then mkCnt (brace c - 1) (bracket c) (parant c)
  else if is_delim 91 t then mkCnt (brace c) (bracket c + 1) (parant c)
  else if is_delim 93 t then mkCnt (brace c) (bracket c - 1) (parant c)
  else if is_delim 40 t || tokty_eqb (ty t) T_FUNCTION then mkCnt (brace c) (bracket c) (parant c + 1)
  else if is_delim 41 t then mkCnt (brace c) (bracket c) (parant c - 1)
  else c.

Definition zero3 (c : cnt) : bool := (brace c =? 0)%Z && (bracket c =? 0)%Z && (parant c =? 0)%Z.

Definition is_end (m : mode) (t : tok) : bool :=
  existsb (fun e => is_delim e t) (mode_ends m) || existsb (tokty_eqb (ty t)) (mode_endtypes m).

Definition stops (m : mode) (c : cnt) (t : tok) : bool :=
  (zero3 c && is_end m t)
  || (match m with MMediaQEnd => true | _ => false end
      && (brace c =? -1)%Z && (bracket c =? 0)%Z && (parant c =? 0)%Z
      && existsb (tokty_eqb (ty t)) (mode_endtypes m)).

(* for token in tokenizer: ... *)
Fixpoint scan (m : mode) (c : cnt) (toks : list tok) : list tok * list tok :=
  match toks with
  | [] => ([], [])
  | t :: r =>
    if tokty_eqb (ty t) T_EOF then ([t], r)
    else
      let c' := count_tok c t in
      if stops m c' t then ([t], r)
      else let (a, b) := scan m c' r in (t :: a, b)
  end.

Definition tokensupto2 (m : mode) (start : option tok) (toks : list tok) : list tok * list tok :=
  match start with
  | Some t => let (a, b) := scan m (count_start (mode_init m start) t) toks in (t :: a, b)
  | None => scan m (mode_init m None) toks
  end.

(* balance of a token list w.r.t. (), [], {} *)
Fixpoint depth_ok (c : cnt) (toks : list tok) : bool :=
  match toks with
  | [] => true
  | t :: r =>
    let c' := count_tok c t in
    (0 <=? brace c')%Z && (0 <=? bracket c')%Z && (0 <=? parant c')%Z && depth_ok c' r
  end.
Definition final_cnt (c : cnt) (toks : list tok) : cnt := fold_left count_tok toks c.
Definition balanced (toks : list tok) : bool :=
  depth_ok (mkCnt 0 0 0) toks && zero3 (final_cnt (mkCnt 0 0 0) toks).

(* flat interface: args = mode code, has_start, then tokens as ty,len,val...
   (line/col = 0); result = n_taken  (the split point) *)
Definition mode_of (n : N) : mode :=
  match n with
  | 0 => MDefault | 1 => MBlockStart | 2 => MBlockEnd | 3 => MMediaEnd | 4 => MImportMQEnd
  | 5 => MMediaQEnd | 6 => MSemicolon | 7 => MPropName | 8 => MPropValue | 9 => MPropPrio
  | 10 => MSelAttEnd | 11 => MFuncEnd | _ => MListSep
  end%N.

Definition tokty_of_code (n : N) : tokty :=
  match find (fun k => N.eqb (tokty_code k) n)
    [T_BOM; T_S; T_URI; T_UNICODE_RANGE; T_IDENT; T_FUNCTION; T_DIMENSION; T_PERCENTAGE; T_NUMBER;
     T_HASH; T_COMMENT; T_STRING; T_INVALID; T_ATKEYWORD; T_INCLUDES; T_DASHMATCH; T_PREFIXMATCH;
     T_SUFFIXMATCH; T_SUBSTRINGMATCH; T_CDO; T_CDC; T_CHAR; T_EOF; T_CHARSET_SYM; T_FONT_FACE_SYM;
     T_MEDIA_SYM; T_IMPORT_SYM; T_NAMESPACE_SYM; T_PAGE_SYM; T_VARIABLES_SYM] with
  | Some k => k | None => T_CHAR end.

Fixpoint take_n {A} (n : nat) (l : list A) : list A * list A :=
  match n, l with
  | O, _ => ([], l)
  | S k, x :: r => let (a, b) := take_n k r in (x :: a, b)
  | S _, [] => ([], [])
  end.

Fixpoint decode_toks (fuel : nat) (l : list N) : list tok :=
  match fuel with
  | O => []
  | S fu =>
    match l with
    | tyc :: len :: r =>
      let (v, r') := take_n (N.to_nat len) r in
      mkTok (tokty_of_code tyc) v 0 0 :: decode_toks fu r'
    | _ => []
    end
  end.

(* ENTRY 40 entry_slice *)
Definition entry_slice (args : list N) : list N :=
  match args with
  | m :: hs :: r =>
    let toks := decode_toks (S (length r)) r in
    match (if N.eqb hs 0 then None else Some tt), toks with
    | Some _, t :: ts => [N.of_nat (length (fst (tokensupto2 (mode_of m) (Some t) ts)))]
    | Some _, [] => [0%N]
    | None, _ => [N.of_nat (length (fst (tokensupto2 (mode_of m) None toks)))]
    end
  | _ => [999999%N]
  end.
