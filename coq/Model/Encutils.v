(* Model/Encutils.v — encutils/__init__.py (property C20):
     _getTextTypeByMediaType / encodingByMediaType   (rules and tables: Gen/GenEnc.v)
     _getTextType
     detectXMLEncoding on a (content, position) stream
     the source-gathering, decision chain and mismatch computation of getEncodingInfo
   External (stdlib) extractors are inputs: the (media type, charset) pair that
   email.message reports for the response and the charset that html.parser +
   email.message report for the first <meta http-equiv=content-type>.
   A byte document is the list of its byte values (the repaired code looks at
   bytes one byte per character), a text document the list of its code points.
   No proofs here. *)
From Coq Require Import List NArith Bool Arith.
From CssV Require Import Base.Regex Base.Chars Gen.GenEnc.
Import ListNotations.
Local Open Scope N_scope.

(* ---- Python str helpers ---- *)
Definition py_lower (s : str) : str :=
  flat_map (fun c => match assoc_sorted c enc_lower_table with Some v => v | None => [c] end) s.

Fixpoint lstrip (s : str) : str :=
  match s with
  | c :: t => if cls_mem c py_space then lstrip t else s
  | [] => []
  end.
Definition py_strip (s : str) : str := rev (lstrip (rev (lstrip s))).

(* Python truthiness of an optional string: None and '' are false *)
Definition known (o : option str) : bool :=
  match o with Some (_ :: _) => true | _ => false end.

Definition opt_eqb (a b : option str) : bool :=
  match a, b with
  | Some x, Some y => str_eqb x y
  | None, None => true
  | _, _ => false
  end.

(* ---- media type -> text type ---- *)
Definition rule_holds (r : mrule) (s : str) : bool :=
  match r with
  | RInOrMatch l re => existsb (str_eqb s) l || matches (S (length s)) re s
  | REq x => str_eqb s x
  | RPrefix p => starts_with p s
  end.

Fixpoint first_rule (rules : list (mrule * N)) (s : str) (dflt : N) : N :=
  match rules with
  | [] => dflt
  | (r, v) :: t => if rule_holds r s then v else first_rule t s dflt
  end.

(* _getTextTypeByMediaType(media_type) *)
Definition classify (mt : option str) : N :=
  match mt with
  | None | Some [] => classify_empty
  | Some s => first_rule classify_rules (py_lower (py_strip s)) classify_else
  end.

Fixpoint lookup_default (tbl : list (N * option str)) (tt : N) : option str :=
  match tbl with
  | [] => None
  | (k, v) :: t => if k =? tt then v else lookup_default t tt
  end.
Definition default_of (tt : N) : option str := lookup_default default_encodings tt.

(* encodingByMediaType(media_type) *)
Definition encoding_by_media_type (mt : option str) : option str := default_of (classify mt).

(* ---- _getTextType(text): text[:30].find(marker) != -1 ---- *)
Fixpoint has_sub (p s : str) : bool :=
  starts_with p s || match s with [] => false | _ :: t => has_sub p t end.
Definition text_type_of (content : str) : N :=
  if has_sub texttype_marker (firstn texttype_window content) then texttype_yes else texttype_no.

(* ---- streams (io.StringIO / BytesIO): content and position ---- *)
Record stream := mkStream { content : str; pos : nat }.
Definition seek (p : nat) (st : stream) : stream := mkStream (content st) p.
Definition read (n : nat) (st : stream) : str * stream :=
  let chunk := firstn n (skipn (pos st) (content st)) in
  (chunk, mkStream (content st) (pos st + length chunk)).

(* ---- BOM dictionary ---- *)
Definition key_eqb (a b : list (option N)) : bool :=
  (fix go (a b : list (option N)) : bool :=
     match a, b with
     | [], [] => true
     | Some x :: a', Some y :: b' => (x =? y) && go a' b'
     | None :: a', None :: b' => go a' b'
     | _, _ => false
     end) a b.
Fixpoint dict_get (tbl : list (list (option N) * str)) (k : list (option N)) : option str :=
  match tbl with
  | [] => None
  | (k', v) :: t => if key_eqb k k' then Some v else dict_get t k
  end.
Fixpoint mask (m : list bool) (bytes : str) : list (option N) :=
  match m, bytes with
  | b :: m', x :: r => (if b then Some x else None) :: mask m' r
  | _, _ => []
  end.
(* bomDict.get(4 bytes) or bomDict.get(3 bytes + None) or bomDict.get(2 bytes + None + None) *)
Fixpoint bom_probe (probes : list (list bool)) (bytes : str) : option str :=
  match probes with
  | [] => None
  | m :: t => match dict_get bom_table (mask m bytes) with
              | Some v => Some v
              | None => bom_probe t bytes
              end
  end.

(* ---- XML declaration: xmlDeclRE.search(buffer).group('encstr') ----
   the pattern starts with ^ (no MULTILINE), so search is a match at offset 0;
   the three generated parts are prefix, named group, suffix *)
Definition decl_match (buf : str) : option str :=
  let F := S (length buf) in
  m F decl_pre buf (fun s1 =>
    m F decl_enc s1 (fun s2 =>
      m F decl_post s2 (fun _ => Some (firstn (length s1 - length s2) s1)))).

Inductive sniff := SRaise | SRet (e : option str).

(* detectXMLEncoding(fp, includeDefault) on an open stream *)
Definition detect_stream (incl : bool) (st : stream) : sniff * stream :=
  let old := pos st in
  let (first, st1) := read bom_read (seek 0 st) in
  if negb (length first =? bom_read)%nat then (SRaise, st1)      (* ValueError from the tuple unpacking *)
  else
    match bom_probe bom_probes first with
    | Some e => (SRet (Some e), seek old st1)
    | None =>
      let (buf, st2) := read decl_window (seek 0 st1) in
      let st3 := seek old st2 in
      match decl_match buf with
      | Some e => (SRet (Some (py_lower e)), st3)
      | None => (SRet (if incl then Some xml_default else None), st3)
      end
    end.

(* detectXMLEncoding(text, includeDefault) on a str / bytes document *)
Definition detect_xml (incl : bool) (doc : str) : sniff := fst (detect_stream incl (mkStream doc 0)).

(* what getEncodingInfo keeps: (AttributeError, ValueError) are swallowed *)
Definition sniffed (incl : bool) (doc : str) : option str :=
  match detect_xml incl doc with SRaise => None | SRet e => e end.

(* ---- getEncodingInfo ---- *)
(* which sources are consulted for a text type *)
Definition xml_source (tt : N) (doc : str) : option str :=
  if tt =? tt_xml_app then sniffed true doc
  else if tt =? tt_html then sniffed false doc
  else None.
Definition meta_source (tt : N) (meta : option str) : option str :=
  if (tt =? tt_html) || (tt =? tt_text) then meta else None.

(* the chain of `if not encinfo.encoding:` steps (encutils/__init__.py:603-631) *)
Definition or_else (e alt : option str) : option str := if known e then e else alt.
(* [dflt] = encodingByMediaType(http_media_type).  For text/html the code's
   last step is tryEncodings(text) (trial decoding, not modelled): it is
   reached only when [dflt] is unknown, which the generated table excludes
   (Proofs/EncutilsFacts.v: html_default_known). *)
Definition decide (tt : N) (http xml meta dflt : option str) : option str :=
  let e := http in
  if tt =? tt_xml_app then or_else e xml
  else if tt =? tt_html then or_else (or_else e meta) dflt
  else if (tt =? tt_xml_text) || (tt =? tt_text) then or_else e dflt
  else if tt =? tt_text_utf8 then or_else e dflt
  else e.

Definition differ (a b : option str) : bool := known a && known b && negb (opt_eqb a b).
Definition mismatch (http xml meta : option str) : bool :=
  differ http xml || differ http meta || differ xml meta.

Record encinfo := mkInfo { i_encoding : option str; i_mismatch : bool;
                           i_http : option str; i_xml : option str; i_meta : option str }.

(* core: text type and the extracted values are given *)
Definition info_of (tt : N) (dflt http : option str) (doc : str) (meta : option str) : encinfo :=
  let xml := xml_source tt doc in
  let met := meta_source tt meta in
  mkInfo (decide tt http xml met dflt) (mismatch http xml met) http xml met.

(* response = Some (media type, charset) as reported by getHTTPInfo, or None *)
Definition get_encoding_info (resp : option (option str * option str)) (doc : str) (meta : option str) : encinfo :=
  match resp with
  | Some (mt, cs) => info_of (classify mt) (encoding_by_media_type mt) cs doc meta
  | None => info_of (text_type_of doc) (encoding_by_media_type None) None doc meta
  end.

(* ---- flat interface ----
   optional string:  0 | 1 len c1 .. clen ;  output the same way *)
Fixpoint take (n : nat) (l : list N) : str * list N :=
  match n, l with
  | O, _ => ([], l)
  | S k, x :: r => let (a, b) := take k r in (x :: a, b)
  | S _, [] => ([], [])
  end.
Definition dec_opt (l : list N) : option str * list N :=
  match l with
  | 1 :: len :: r => let (s, r') := take (N.to_nat len) r in (Some s, r')
  | _ :: r => (None, r)
  | [] => (None, [])
  end.
Definition enc_opt (o : option str) : list N :=
  match o with None => [0] | Some s => 1 :: Nlen s :: s end.
Definition enc_info (i : encinfo) : list N :=
  enc_opt (i_encoding i) ++ [if i_mismatch i then 1 else 0] ++ enc_opt (i_http i) ++ enc_opt (i_xml i) ++ enc_opt (i_meta i).

(* ENTRY 200 entry_classify *)
Definition entry_classify (args : list N) : list N := [classify (fst (dec_opt args))].

(* ENTRY 201 entry_default *)
Definition entry_default (args : list N) : list N := enc_opt (encoding_by_media_type (fst (dec_opt args))).

(* ENTRY 202 entry_texttype *)
Definition entry_texttype (args : list N) : list N := [text_type_of args].

(* incl pos content.. -> (0 | 1 opt) newpos *)
(* ENTRY 203 entry_detect *)
Definition entry_detect (args : list N) : list N :=
  match args with
  | incl :: p :: doc =>
    let (r, st) := detect_stream (negb (incl =? 0)) (mkStream doc (N.to_nat p)) in
    (match r with SRaise => [0] | SRet e => 1 :: enc_opt e end) ++ [N.of_nat (pos st)]
  | _ => []
  end.

(* has_response, media type opt, charset opt, meta opt, content.. *)
(* ENTRY 204 entry_info *)
Definition entry_info (args : list N) : list N :=
  match args with
  | has :: r =>
    let (mt, r1) := dec_opt r in
    let (cs, r2) := dec_opt r1 in
    let (meta, doc) := dec_opt r2 in
    enc_info (get_encoding_info (if has =? 0 then None else Some (mt, cs)) doc meta)
  | [] => []
  end.

(* tt, http opt, xml opt, meta opt -> encoding opt, mismatch *)
(* ENTRY 205 entry_decide *)
Definition entry_decide (args : list N) : list N :=
  match args with
  | ty :: r =>
    let (h, r1) := dec_opt r in
    let (x, r2) := dec_opt r1 in
    let (me, _) := dec_opt r2 in
    enc_opt (decide ty h x me (default_of ty)) ++ [if mismatch h x me then 1 else 0]
  | [] => []
  end.
