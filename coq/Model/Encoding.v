(* Model/Encoding.v — which encoding decodes a style sheet / an imported sheet,
   what the sheet reports, and how non-encodable characters are written.

   cssutils/util.py _readUrl                     -> read_url (ladder = Gen.GenEncoding.readurl_ladder, translated)
   cssutils/css/cssimportrule.py _setHref        -> resolve  (hand-over = Gen.GenEncoding.sethref_handover, translated)
   cssutils/css/cssstylesheet.py _resolveImport,
        _setCssTextWithEncodingOverride          -> sheet_parse
   cssutils/parse.py parseString / parseUrl      -> parse_string_text / parse_string_bytes / parse_url
   cssutils/css/cssstylesheet.py _getEncoding,
        _setEncoding                             -> sheet_encoding / set_encoding
   cssutils/serialize.py _escapecss + encode     -> escapecss (abstract codec = Section variable)

   Encodings are numbers (the harness numbers the names; 0 is 'utf-8', 1 is
   'utf-8-sig').  Truthiness of an encoding name ('' is false) is the
   harness's business: it passes '' as None.  No proofs here. *)
From Coq Require Import List NArith Bool Arith.
From CssV Require Import Base.Regex Base.Chars Base.Tokens Gen.GenLex Gen.GenEncoding Model.Tokenizer.
Import ListNotations.
Local Open Scope N_scope.

Definition enc_utf8sig : enc := 1.

(* ---- what a fetcher can hand back ---- *)
Inductive ckind := KBom (e : enc) | KCharset (e : enc) | KNeither.
(* [decodable]: the encodings under which the byte content decodes without
   UnicodeDecodeError (the codec itself is a black box) *)
Record content := mkContent { is_text : bool; kind : ckind; decodable : list enc }.

Inductive fetchres :=
| FNone                                    (* fetcher(url) is None *)
| FNoContent (http : option enc)           (* (None, None) / (charset, None) *)
| FData (http : option enc) (c : content).

(* a finite import tree: what is served at a URL and the @import rules of
   that sheet, in order *)
Inductive tree := Node (f : fetchres) (kids : list tree).

(* codec.detectencoding_str / detectencoding_unicode as seen by _readUrl:
   "explicit" = BOM (bytes only) or a leading  at-charset "..." *)
Definition explicit_of (c : content) : option enc :=
  match kind c with
  | KBom e => if is_text c then None else Some e
  | KCharset e => Some e
  | KNeither => None
  end.
Definition detect (guess : option enc) (c : content) : option enc * bool :=
  match explicit_of c with
  | Some e => (Some e, true)
  | None => (guess, false)          (* implicit guess: ignored by the ladder *)
  end.

Definition mem_enc (e : enc) (l : list enc) : bool := existsb (N.eqb e) l.

(* _readUrl: (encoding, enctype, decodedCssText is not None) *)
Definition read_url (ov : option enc) (f : fetchres) (par : option enc)
  : option enc * option N * bool :=
  match f with
  | FData http c =>
    let d := detect (Some enc_utf8) c in
    let '(e, ty) := readurl_ladder ov http (is_text c) d d par in
    (e, ty, readurl_decoded (is_text c)
              (match e with Some x => mem_enc x (decodable c) | None => false end))
  | _ => (None, None, false)
  end.

(* ---- resolved tree: per sheet (loaded?, reported encoding, enctype, imports) ---- *)
Inductive rnode := RNode (loaded : bool) (encoding : enc) (enctype : option N) (kids : list rnode).

Definition default_enc (rule0 : option enc) : enc :=
  match rule0 with Some e => e | None => enc_utf8 end.

(* CSSStyleSheet._resolveImport: parentEncoding = __newEncoding if set, else
   the charset rule at index 0, else None *)
Definition parent_encoding (newenc rule0 : option enc) : option enc :=
  match newenc with Some e => Some e | None => rule0 end.

(* sheet.encoding after _setCssTextWithEncodingOverride(text, ovr, newenc) on
   a text whose own charset rule is rule0 *)
Definition final_encoding (ovr newenc rule0 : option enc) : enc :=
  match ovr with
  | Some e => e
  | None => match newenc with Some e => e | None => default_enc rule0 end
  end.

(* CSSImportRule._setHref -> parent._resolveImport -> _readUrl ->
   imported._setCssTextWithEncodingOverride, recursively.  A sheet that is
   not loaded (fetch failed, no content, undecodable) stays the empty default
   sheet; the retry in insertRule repeats the same call with the same state.
   A loaded sheet reached with enctype 5 has no charset rule (its content is
   not "explicit"), hence rule0 = None below. *)
Fixpoint resolve (ov par : option enc) (t : tree) : rnode :=
  match t with
  | Node f kids =>
    match read_url ov f par with
    | (Some used, Some ty, true) =>
      let '(ovr, newenc) := sethref_handover (Some used) ty in
      RNode true (final_encoding ovr newenc None) (Some ty)
            (map (resolve ovr (parent_encoding newenc None)) kids)
    | (_, ty, _) => RNode false enc_utf8 ty []
    end
  end.

(* parseString(text, encoding=ov): the root's own charset rule is rule0 *)
Definition parse_string_text (ov rule0 : option enc) (kids : list tree) : rnode :=
  RNode true (final_encoding ov None rule0) None
        (map (resolve ov (parent_encoding None rule0)) kids).

(* codec._fixencoding's name rewriting *)
Definition fixenc (e : enc) : enc := if e =? enc_utf8sig then enc_utf8 else e.

(* parseString(bytes, encoding=ov): css codec first (may raise -> None) *)
Definition parse_string_bytes (ov : option enc) (c : content) (kids : list tree) : option rnode :=
  let used := match ov with
              | Some e => e
              | None => match explicit_of c with Some e => e | None => enc_utf8 end
              end in
  if mem_enc used (decodable c) then
    Some (parse_string_text ov (match kind c with KCharset _ => Some (fixenc used) | _ => None end) kids)
  else None.

(* parseUrl(href, encoding=ov) -- as repaired by fixes/C08-parseurl-*.patch:
   the detected encoding is handed on exactly as for an imported sheet *)
Definition parse_url (ov : option enc) (t : tree) : option rnode :=
  match resolve ov None t with
  | RNode true e ty kids => Some (RNode true e ty kids)
  | RNode false _ _ _ => None
  end.

Fixpoint rnodes (r : rnode) : list rnode :=
  match r with RNode _ _ _ kids => r :: flat_map rnodes kids end.
Definition r_loaded (r : rnode) : bool := match r with RNode l _ _ _ => l end.
Definition r_encoding (r : rnode) : enc := match r with RNode _ e _ _ => e end.
Definition r_enctype (r : rnode) : option N := match r with RNode _ _ t _ => t end.
Definition r_kids (r : rnode) : list rnode := match r with RNode _ _ _ k => k end.

(* ---- the encoding attribute and the charset rule ---- *)
Inductive srule := SCharset (e : enc) | SOther (k : N).
Definition sheet := list srule.
Definition sheet_encoding (s : sheet) : enc :=
  match s with SCharset e :: _ => e | _ => enc_utf8 end.
Definition set_encoding (s : sheet) (e : option enc) : sheet :=
  match s, e with
  | SCharset _ :: r, Some x => SCharset x :: r
  | SCharset _ :: r, None => r
  | _, Some x => SCharset x :: s
  | _, None => s
  end.
Definition is_charset (r : srule) : bool := match r with SCharset _ => true | _ => false end.
(* C09's invariant, the part that concerns the charset rule *)
Definition charset_wf (s : sheet) : bool := forallb (fun r => negb (is_charset r)) (tl s).

(* ---- serialisation: text.encode(encoding, 'escapecss') seen through the
   codec (decode . encode): encodable characters survive, the others become
   backslash, upper-case hex, one space ---- *)
Definition hex_char (d : N) : N := if d <? 10 then 48 + d else 55 + d.
Fixpoint hex_go (fuel : nat) (n : N) (acc : str) : str :=
  match fuel with
  | O => acc
  | S f => let acc' := hex_char (n mod 16) :: acc in
           if n / 16 =? 0 then acc' else hex_go f (n / 16) acc'
  end.
(* code points have at most six hex digits *)
Definition hex_upper (n : N) : str := hex_go 6 n [].

Section Codec.
Variable encodable : N -> bool.
Definition escape_char (c : N) : str :=
  if encodable c then [c] else 92 :: hex_upper c ++ [32].
Definition escapecss (s : str) : str := flat_map escape_char s.
End Codec.

(* hand-transcribed CSS 2.1 escape syntax (backslash, 1-6 hex digits, one
   optional white space; other escapes are left alone) *)
Fixpoint take_hex_n (n : nat) (s : str) : str * str :=
  match n, s with
  | S k, c :: t => if is_hex c then let (h, r) := take_hex_n k t in (c :: h, r) else ([], s)
  | _, _ => ([], s)
  end.
Definition is_ws (c : N) : bool := (c =? 32) || (c =? 9) || (c =? 10) || (c =? 13) || (c =? 12).
Definition skip_one_ws (s : str) : str :=
  match s with
  | 13 :: 10 :: t => t
  | c :: t => if is_ws c then t else s
  | [] => []
  end.
Fixpoint decode_escapes_go (fuel : nat) (s : str) : str :=
  match fuel with
  | O => s
  | S fu =>
    match s with
    | [] => []
    | c :: t =>
      if c =? 92 then
        match take_hex_n 6 t with
        | ([], _) => match t with
                     | c' :: t' => 92 :: c' :: decode_escapes_go fu t'
                     | [] => [92]
                     end
        | (h, r) => if hex_num h <=? maxunicode
                    then hex_num h :: decode_escapes_go fu (skip_one_ws r)
                    else 92 :: h ++ decode_escapes_go fu r
        end
      else c :: decode_escapes_go fu t
    end
  end.
Definition decode_escapes (s : str) : str := decode_escapes_go (S (length s)) s.

(* ---- flat interfaces ---- *)
Definition optn (o : option N) : N := match o with Some x => x + 1 | None => 0 end.
Definition nopt (n : N) : option N := if n =? 0 then None else Some (n - 1).
Definition b2n (b : bool) : N := if b then 1 else 0.

Fixpoint take_n (n : nat) (l : list N) : list N * list N :=
  match n, l with
  | O, _ => ([], l)
  | S k, x :: r => let (a, b) := take_n k r in (x :: a, b)
  | S _, [] => ([], [])
  end.

Definition mk_kind (tag e : N) : ckind :=
  match tag with 1 => KBom e | 2 => KCharset e | _ => KNeither end.

(* content: is_text ktag kenc ndec dec... *)
Definition parse_content (l : list N) : option (content * list N) :=
  match l with
  | ist :: ktag :: kenc :: ndec :: r =>
    let (dec, r1) := take_n (N.to_nat ndec) r in
    Some (mkContent (nbool ist) (mk_kind ktag kenc) dec, r1)
  | _ => None
  end.

(* fetch result: 0 | 1 http | 2 http content *)
Definition parse_fetch (l : list N) : option (fetchres * list N) :=
  match l with
  | 0 :: r => Some (FNone, r)
  | 1 :: http :: r => Some (FNoContent (nopt http), r)
  | 2 :: http :: r =>
    match parse_content r with
    | Some (c, r1) => Some (FData (nopt http) c, r1)
    | None => None
    end
  | _ => None
  end.

(* tree: fetch nkids kids... *)
Fixpoint parse_tree (fuel : nat) (l : list N) {struct fuel} : option (tree * list N) :=
  match fuel with
  | O => None
  | S fu =>
    match parse_fetch l with
    | Some (f, nk :: r) =>
      match (fix forest (n : nat) (l : list N) {struct n} : option (list tree * list N) :=
               match n with
               | O => Some ([], l)
               | S n' =>
                 match parse_tree fu l with
                 | Some (t, l') =>
                   match forest n' l' with
                   | Some (ts, l'') => Some (t :: ts, l'')
                   | None => None
                   end
                 | None => None
                 end
               end) (N.to_nat nk) r with
      | Some (kids, r') => Some (Node f kids, r')
      | None => None
      end
    | _ => None
    end
  end.

Fixpoint parse_forest (fuel n : nat) (l : list N) : option (list tree * list N) :=
  match n with
  | O => Some ([], l)
  | S n' =>
    match parse_tree fuel l with
    | Some (t, l') =>
      match parse_forest fuel n' l' with
      | Some (ts, l'') => Some (t :: ts, l'')
      | None => None
      end
    | None => None
    end
  end.

Fixpoint flat_rnode (r : rnode) : list N :=
  match r with
  | RNode ld e ty kids => [b2n ld; e; optn ty; N.of_nat (length kids)] ++ flat_map flat_rnode kids
  end.

(* ENTRY 80 entry_readurl *)
(* ov par fetch  ->  enc+1 enctype+1 decoded *)
Definition entry_readurl (args : list N) : list N :=
  match args with
  | ov :: par :: r =>
    match parse_fetch r with
    | Some (f, []) => let '(e, ty, d) := read_url (nopt ov) f (nopt par) in [optn e; optn ty; b2n d]
    | _ => [999999]
    end
  | _ => [999999]
  end.

(* ENTRY 81 entry_resolve *)
(* mode 0: parseString(text):  0 ov rule0 nkids kids...
   mode 1: parseString(bytes): 1 ov content nkids kids...
   mode 2: parseUrl:           2 ov tree
   -> 1 flat-rnode | 0 (raises / None) *)
Definition entry_resolve (args : list N) : list N :=
  let F := S (length args) in
  match args with
  | 0 :: ov :: rule0 :: nk :: r =>
    match parse_forest F (N.to_nat nk) r with
    | Some (kids, []) => 1 :: flat_rnode (parse_string_text (nopt ov) (nopt rule0) kids)
    | _ => [999999]
    end
  | 1 :: ov :: r =>
    match parse_content r with
    | Some (c, nk :: r1) =>
      match parse_forest F (N.to_nat nk) r1 with
      | Some (kids, []) =>
        match parse_string_bytes (nopt ov) c kids with
        | Some x => 1 :: flat_rnode x
        | None => [0]
        end
      | _ => [999999]
      end
    | _ => [999999]
    end
  | 2 :: ov :: r =>
    match parse_tree F r with
    | Some (t, []) =>
      match parse_url (nopt ov) t with
      | Some x => 1 :: flat_rnode x
      | None => [0]
      end
    | _ => [999999]
    end
  | _ => [999999]
  end.

(* ENTRY 82 entry_sheet *)
(* nrules (0 k | 1 e)*  then ops (e+1 | 0)* -> per op: encoding nrules rules *)
Fixpoint parse_rules (n : nat) (l : list N) : sheet * list N :=
  match n, l with
  | S k, tag :: v :: r =>
    let (s, r') := parse_rules k r in
    ((if tag =? 1 then SCharset v else SOther v) :: s, r')
  | _, _ => ([], l)
  end.
Definition flat_sheet (s : sheet) : list N :=
  sheet_encoding s :: N.of_nat (length s) ::
  flat_map (fun r => match r with SCharset e => [1; e] | SOther k => [0; k] end) s.
Fixpoint run_sheet (s : sheet) (ops : list N) : list N :=
  match ops with
  | [] => []
  | o :: r => let s' := set_encoding s (nopt o) in flat_sheet s' ++ run_sheet s' r
  end.
Definition entry_sheet (args : list N) : list N :=
  match args with
  | n :: r => let (s, ops) := parse_rules (N.to_nat n) r in flat_sheet s ++ run_sheet s ops
  | [] => [999999]
  end.

(* codecs used by the flat entries: every code point below [limit] is
   encodable (ascii: 128, latin-1: 256, utf-8: 1114112 minus surrogates) *)
Definition below (limit : N) (c : N) : bool :=
  (c <? limit) && negb ((55296 <=? c) && (c <=? 57343)).

(* ENTRY 83 entry_escapecss *)
Definition entry_escapecss (args : list N) : list N :=
  match args with
  | limit :: text => escapecss (below limit) text
  | [] => [999999]
  end.

(* ENTRY 84 entry_escape_tokens *)
(* limit text -> token stream of the escaped text (full sheet, with comments) *)
Definition entry_escape_tokens (args : list N) : list N :=
  match args with
  | limit :: text => tokenize_flat (escapecss (below limit) text) true true
  | [] => [999999]
  end.

(* ENTRY 85 entry_decode_escapes *)
(* text -> hand-transcribed decoding ++ [1114112] ++ tokenizer's unicodesub *)
Definition entry_decode_escapes (args : list N) : list N :=
  decode_escapes args ++ [1114112] ++ unicodesub args.
