#!/bin/bash
# usage: tools/seedtest.sh Cxx/v [check ids...]  — apply the seed to a scratch worktree of /repo and run the checks
# with --no-build (search / correspondence against the already built model); removes the worktree afterwards
s=$1; shift
checks=${@:-${s%%/*}}
wt=/tmp/sw-$(echo $s | tr '/' '-')
git -C /repo worktree remove --force $wt 2>/dev/null
git -C /repo worktree add -q $wt HEAD || exit 2
if git -C $wt apply /verif/seeded/$s/patch.diff; then
  for c in $checks; do (cd /verif && VERIF_REPO=$wt ./check $c --no-build 2>&1 | grep -v "^KNOWN" | tail -${TAILN:-2}); done
else echo "patch does not apply"; fi
git -C /repo worktree remove --force $wt
(cd /verif && git checkout evidence/ 2>/dev/null)
