"""regex2coq — translate a Python `re` pattern into a Coq term of type
CssV.Base.Regex.re.

Front end: CPython's own parser (re._parser.parse).  Character sets are not
re-interpreted from syntax: every single-character item of the parse tree
(LITERAL, NOT_LITERAL, IN, ANY) is compiled by CPython *with the pattern's
flags* and run over a string that contains every code point once, so the
emitted class is exactly the set of characters CPython accepts there (this
resolves \\s \\d \\w, IGNORECASE, negation and ranges in one uniform way).

Fail-closed: any opcode outside the supported set raises Untranslatable.
"""
import hashlib
import os
import pickle
import re
import sys

try:  # Python >= 3.11
    from re import _parser as sre_parse, _compiler as sre_compile, _constants as C
except ImportError:  # pragma: no cover
    import sre_parse, sre_compile, sre_constants as C

MAXCP = 0x110000
_ALL = None
_CACHE = None
_CACHE_PATH = os.path.join(os.path.dirname(os.path.abspath(__file__)), '..', '.cache',
                           'cls-%d.%d.%d.pickle' % sys.version_info[:3])


class Untranslatable(Exception):
    pass


def _all():
    global _ALL
    if _ALL is None:
        _ALL = ''.join(map(chr, range(MAXCP)))
    return _ALL


def _cache():
    global _CACHE
    if _CACHE is None:
        try:
            with open(_CACHE_PATH, 'rb') as f:
                _CACHE = pickle.load(f)
        except Exception:
            _CACHE = {}
    return _CACHE


def save_cache():
    if _CACHE is None:
        return
    os.makedirs(os.path.dirname(_CACHE_PATH), exist_ok=True)
    tmp = _CACHE_PATH + '.%d' % os.getpid()
    with open(tmp, 'wb') as f:
        pickle.dump(_CACHE, f)
    os.replace(tmp, _CACHE_PATH)


def _ranges(cps):
    out = []
    start = prev = None
    for c in cps:
        if start is None:
            start = prev = c
        elif c == prev + 1:
            prev = c
        else:
            out.append((start, prev))
            start = prev = c
    if start is not None:
        out.append((start, prev))
    return tuple(out)


def charset_of_item(item, flags):
    """Set of code points (as sorted ranges) CPython accepts for a
    single-character parse-tree item under `flags`."""
    key = (repr(item), flags & (re.I | re.S | re.A | re.U | re.M))
    c = _cache()
    if key in c:
        return c[key]
    state = sre_parse.State()
    state.flags = flags
    state.str = ''
    sub = sre_parse.SubPattern(state, [item])
    pat = sre_compile.compile(sub, flags)
    cps = [ord(ch) for ch in pat.findall(_all())]
    r = _ranges(cps)
    c[key] = r
    return r


# ---- intermediate tree -------------------------------------------------
# ('eps',) ('chr', ranges) ('cat', a, b) ('alt', a, b) ('rep', greedy, lo, hi, a) ('eol',)

def _seq(items):
    items = [i for i in items if i != ('eps',)]
    if not items:
        return ('eps',)
    t = items[-1]
    for i in reversed(items[:-1]):
        t = ('cat', i, t)
    return t


def _conv_seq(sub, flags, top, drop_bol, drop_eos=False):
    out = []
    n = len(sub)
    for idx, (op, av) in enumerate(sub):
        if op is C.AT and av is C.AT_BEGINNING and top and idx == 0 and drop_bol:
            continue  # pattern is only ever applied with match() at position 0
        if op is C.AT and av is C.AT_END_STRING and top and idx == n - 1 and drop_eos:
            continue  # \Z at the very end: the model applies the pattern as a full match (`matches`)
        out.append(_conv(op, av, flags))
    return _seq(out)


def _conv(op, av, flags):
    if op in (C.LITERAL, C.NOT_LITERAL, C.IN, C.ANY):
        return ('chr', charset_of_item((op, av), flags))
    if op is C.BRANCH:
        _, alts = av
        ts = [_conv_seq(a, flags, False, False) for a in alts]
        t = ts[-1]
        for i in reversed(ts[:-1]):
            t = ('alt', i, t)
        return t
    if op is C.SUBPATTERN:
        group, add_flags, del_flags, p = av
        if add_flags or del_flags:
            raise Untranslatable('inline flags')
        return _conv_seq(p, flags, False, False)
    if op in (C.MAX_REPEAT, C.MIN_REPEAT):
        lo, hi, p = av
        hi = None if hi == C.MAXREPEAT else int(hi)
        return ('rep', op is C.MAX_REPEAT, int(lo), hi, _conv_seq(p, flags, False, False))
    if op is C.AT:
        if av is C.AT_END:
            if flags & re.M:
                raise Untranslatable('$ with MULTILINE')
            return ('eol',)
        raise Untranslatable('anchor %r' % (av,))
    raise Untranslatable('opcode %r' % (op,))


def translate(pattern, flags=0, drop_bol=False, drop_eos=False):
    """pattern string -> intermediate tree"""
    if flags & (re.X | re.L):
        raise Untranslatable('flags')
    p = sre_parse.parse(pattern, flags)
    flags = p.state.flags | flags
    if p.state.groupdict and False:
        pass
    return _conv_seq(p, flags, True, drop_bol, drop_eos)


def nullable(t):
    k = t[0]
    if k in ('eps', 'eol'):
        return True
    if k == 'chr':
        return False
    if k == 'cat':
        return nullable(t[1]) and nullable(t[2])
    if k == 'alt':
        return nullable(t[1]) or nullable(t[2])
    if k == 'rep':
        return t[2] == 0 or nullable(t[4])
    raise AssertionError(k)


def has_nullable_loop(t):
    """an unbounded/bounded loop whose body can match the empty string: the
    one place where sre's empty-iteration rule could matter for group(0)"""
    k = t[0]
    if k in ('eps', 'eol', 'chr'):
        return False
    if k in ('cat', 'alt'):
        return has_nullable_loop(t[1]) or has_nullable_loop(t[2])
    if k == 'rep':
        return nullable(t[4]) or has_nullable_loop(t[4])
    raise AssertionError(k)


# ---- emission with hash-consing -----------------------------------------

class Emitter:
    """Collects regex trees and emits Coq definitions; sub-trees that occur
    more than once (or are large) are shared through named definitions so the
    ~150 macro-expanded profile patterns stay small."""

    def __init__(self, prefix):
        self.prefix = prefix
        self.cls_names = {}
        self.node_names = {}
        self.lines = []
        self.count = {}

    def _cls(self, ranges):
        if ranges in self.cls_names:
            return self.cls_names[ranges]
        name = '%s_c%d' % (self.prefix, len(self.cls_names))
        self.cls_names[ranges] = name
        body = '; '.join('(%d, %d)' % r for r in ranges)
        self.lines.append('Definition %s : cls := [%s].' % (name, body))
        return name

    def _count(self, t):
        self.count[t] = self.count.get(t, 0) + 1
        if self.count[t] == 1 and t[0] in ('cat', 'alt'):
            self._count(t[1]); self._count(t[2])
        elif self.count[t] == 1 and t[0] == 'rep':
            self._count(t[4])

    def _size(self, t, memo={}):
        if t in memo:
            return memo[t]
        k = t[0]
        if k in ('cat', 'alt'):
            s = 1 + self._size(t[1]) + self._size(t[2])
        elif k == 'rep':
            s = 1 + self._size(t[4])
        else:
            s = 1
        memo[t] = s
        return s

    def _term(self, t, top=False):
        k = t[0]
        if k == 'eps':
            return 'Eps'
        if k == 'eol':
            return 'Eol'
        if k == 'chr':
            return '(Chr %s)' % self._cls(t[1])
        if not top and t in self.node_names:
            return self.node_names[t]
        if not top and (self.count.get(t, 0) > 1 and self._size(t) >= 3 or self._size(t) >= 40):
            body = self._term(t, top=True)
            name = '%s_n%d' % (self.prefix, len(self.node_names))
            self.node_names[t] = name
            self.lines.append('Definition %s : re := %s.' % (name, body))
            return name
        if k == 'cat':
            return '(Cat %s %s)' % (self._term(t[1]), self._term(t[2]))
        if k == 'alt':
            return '(Alt %s %s)' % (self._term(t[1]), self._term(t[2]))
        if k == 'rep':
            hi = 'None' if t[3] is None else '(Some %d%%nat)' % t[3]
            return '(Rep %s %d%%nat %s %s)' % ('true' if t[1] else 'false', t[2], hi,
                                             self._term(t[4]))
        raise AssertionError(k)

    def prepare(self, trees):
        for t in trees:
            self._count(t)

    def define(self, name, t):
        body = self._term(t, top=True)
        self.lines.append('Definition %s : re := %s.' % (name, body))

    def text(self):
        return '\n'.join(self.lines) + '\n'


def tree_hash(t):
    return hashlib.sha1(repr(t).encode()).hexdigest()[:12]


# reference interpreter of the intermediate tree with the semantics of
# Base/Regex.v (used by the translator's self-test against CPython)
def py_match(t, s, pos=0):
    """returns end position of the match or None (priority semantics)"""
    n = len(s)

    def m(t, i, k):
        kind = t[0]
        if kind == 'eps':
            return k(i)
        if kind == 'chr':
            if i < n:
                c = ord(s[i])
                for a, b in t[1]:
                    if a <= c <= b:
                        return k(i + 1)
            return None
        if kind == 'cat':
            return m(t[1], i, lambda j: m(t[2], j, k))
        if kind == 'alt':
            r = m(t[1], i, k)
            return r if r is not None else m(t[2], i, k)
        if kind == 'eol':
            if i == n or (i == n - 1 and s[i] == '\n'):
                return k(i)
            return None
        if kind == 'rep':
            _, greedy, lo, hi, body = t
            chk = nullable(body)

            def loop(i, cnt):
                def more():
                    if hi is not None and cnt >= hi:
                        return None
                    return m(body, i, lambda j: loop(j, cnt + 1)
                             if (not chk or j > i or cnt < lo) else None)

                def stop():
                    return k(i) if cnt >= lo else None
                if greedy:
                    r = more()
                    return r if r is not None else stop()
                r = stop()
                return r if r is not None else more()
            return loop(i, 0)
        raise AssertionError(kind)
    return m(t, pos, lambda j: j)


class DagEmitter:
    """Emits a set of regex trees as DATA: a class table, a node table in
    topological order (children before parents, maximal sharing) and root
    indexes.  Base/RegexDag.v rebuilds the `re` values from it; facts about all
    patterns then follow from facts about the (small) class table."""

    def __init__(self):
        self.cls_index = {}
        self.node_index = {}
        self.nodes = []

    def _cls(self, ranges):
        if ranges not in self.cls_index:
            self.cls_index[ranges] = len(self.cls_index)
        return self.cls_index[ranges]

    def add(self, t):
        if t in self.node_index:
            return self.node_index[t]
        k = t[0]
        if k == 'eps':
            n = 'NEps'
        elif k == 'eol':
            n = 'NEol'
        elif k == 'chr':
            n = 'NChr %d' % self._cls(t[1])
        elif k in ('cat', 'alt'):
            a, b = self.add(t[1]), self.add(t[2])
            n = '%s %d %d' % ('NCat' if k == 'cat' else 'NAlt', a, b)
        elif k == 'rep':
            a = self.add(t[4])
            hi = 'None' if t[3] is None else '(Some %d)' % t[3]
            n = 'NRep %s %d %s %d' % ('true' if t[1] else 'false', t[2], hi, a)
        else:
            raise AssertionError(k)
        self.node_index[t] = len(self.nodes)
        self.nodes.append(n)
        return self.node_index[t]

    def text(self, prefix):
        cls = sorted(self.cls_index.items(), key=lambda kv: kv[1])
        out = ['Definition %s_classes : list cls :=\n  [%s]%%N.\n' % (
            prefix, ';\n   '.join('[%s]' % '; '.join('(%d, %d)' % r for r in ranges) for ranges, _ in cls))]
        out.append('Definition %s_nodes : list node :=\n  [%s]%%nat.\n' % (prefix, ';\n   '.join(self.nodes)))
        return ''.join(out)
