"""Regenerate coq/Gen/GenSelector.v from cssutils/css/selector.py:

* the `Constants` strings (live class attributes);
* the closed set of values `expected` can take (initial value of the _parse
  call, every `return <Constants expr>` of the productions, 'EOF') as an enum
  `exp` with its string table;
* every word `w` of a `'w' in expected` test the state machine performs (AST
  of class New) as an enum `word`, and the truth table `has_word` computed by
  Python's own `in`;
* the return expression of every `return` statement of every production, in
  source order (`ret__<fn>_<k> : option exp`, None = `return expected`);
* the literals `expected` is compared with (productions and the post
  conditions of _setSelectorText);
* the literal tuples of New._pseudo (legacy one-colon pseudo-elements) and
  New.append (types counted in the last specificity component);
* how _prepare_tokens compares the FUNCTION value with 'not(' (raw or
  normalised);
* str.isspace() code points (Seq/Out use str.strip()) and the serializer
  preferences Out.append consults for selector items.

Fail-closed: any construct outside the recognised shapes raises."""
import ast
import inspect
import sys
import textwrap

from .emit import coq_str, header, src_info


class Untranslatable(Exception):
    pass


ITYPES = ['COMMENT', 'S', 'descendant', 'universal', 'pseudo-class', 'pseudo-element', 'NUMBER', 'DIMENSION', 'IDENT',
          'STRING', 'includes', 'dashmatch', 'prefixmatch', 'suffixmatch', 'substringmatch', 'attribute-selector',
          'attribute-value', 'negation-type-selector', 'type-selector', 'class', 'id', 'attribute-end', 'equals',
          'negation-end', 'plus', 'minus', 'function-end', 'attribute-start', 'child', 'adjacent-sibling',
          'following-sibling', 'negation-start']
# types that come from the token type (typ = self.selector._type(token), possibly lower-cased)
TOKEN_DERIVED_ITYPES = ['pseudo-class', 'pseudo-element', 'NUMBER', 'DIMENSION', 'IDENT', 'STRING', 'includes',
                        'dashmatch', 'prefixmatch', 'suffixmatch', 'substringmatch']

PRODUCTION_FUNCS = ['_COMMENT', '_S', '_universal', '_namespace_prefix', '_pseudo', '_expression', '_attcombinator',
                    '_string', '_ident', '_class', '_hash', '_char', '_negation', '_atkeyword']


def _const_expr(node, C):
    """evaluate an expression made of Constants.X and +; returns (name, value) or None for `expected`"""
    if isinstance(node, ast.Name) and node.id == 'expected':
        return None
    if isinstance(node, ast.Attribute) and isinstance(node.value, ast.Name) and node.value.id == 'Constants':
        if not hasattr(C, node.attr):
            raise Untranslatable('Constants.%s does not exist' % node.attr)
        return node.attr, getattr(C, node.attr)
    if isinstance(node, ast.BinOp) and isinstance(node.op, ast.Add):
        a, b = _const_expr(node.left, C), _const_expr(node.right, C)
        if a is None or b is None:
            raise Untranslatable('return expression mixes expected and constants')
        return a[0] + '__' + b[0], a[1] + b[1]
    if isinstance(node, ast.Constant) and isinstance(node.value, str):
        return 'lit_' + ''.join(c if c.isalnum() else '_' for c in node.value), node.value
    raise Untranslatable('unsupported return expression %s' % ast.dump(node))


def _returns_in_order(fn):
    rets = [n for n in ast.walk(fn) if isinstance(n, ast.Return)]
    rets.sort(key=lambda n: (n.lineno, n.col_offset))
    return rets


def _is_expected(n):
    return isinstance(n, ast.Name) and n.id == 'expected'


def generate():
    import cssutils
    from cssutils.css import selector as S
    from cssutils import serialize
    C = S.Constants
    out = [header('GenSelector', ['cssutils/css/selector.py', 'cssutils/serialize.py'])]
    out.append('From CssV Require Import Base.Chars.\n')
    info = []
    src = inspect.getsource(S)
    tree = ast.parse(src)
    classes = {n.name: n for n in tree.body if isinstance(n, ast.ClassDef)}
    if 'New' not in classes or 'Selector' not in classes or 'Constants' not in classes:
        raise Untranslatable('classes New / Selector / Constants not found')
    new_funcs = {n.name: n for n in classes['New'].body if isinstance(n, ast.FunctionDef)}
    sel_funcs = {n.name: n for n in classes['Selector'].body if isinstance(n, ast.FunctionDef)}

    # productions dict must map to exactly the functions we model
    prod_map = {}
    for node in ast.walk(new_funcs['productions']):
        if isinstance(node, ast.Dict):
            for k, v in zip(node.keys, node.values):
                if not (isinstance(k, ast.Constant) and isinstance(v, ast.Attribute)):
                    raise Untranslatable('productions dict: unsupported entry')
                prod_map[k.value] = v.attr
    expected_map = {
        'CHAR': '_char', 'class': '_class', 'HASH': '_hash', 'STRING': '_string', 'IDENT': '_ident',
        'namespace_prefix': '_namespace_prefix', 'negation': '_negation', 'pseudo-class': '_pseudo',
        'pseudo-element': '_pseudo', 'universal': '_universal', 'NUMBER': '_expression', 'DIMENSION': '_expression',
        'PREFIXMATCH': '_attcombinator', 'SUFFIXMATCH': '_attcombinator', 'SUBSTRINGMATCH': '_attcombinator',
        'DASHMATCH': '_attcombinator', 'INCLUDES': '_attcombinator', 'S': '_S', 'COMMENT': '_COMMENT',
        'ATKEYWORD': '_atkeyword'}
    if prod_map != expected_map:
        raise Untranslatable('New.productions differs from the dispatch the model implements: %r' % (
            sorted(set(prod_map.items()) ^ set(expected_map.items())),))

    # ---- Constants
    consts = [(k, v) for k, v in vars(C).items() if not k.startswith('_') and isinstance(v, str)]
    for k, v in consts:
        out.append('Definition K_%s : str := %s.\n' % (k, coq_str(v)))
    info.append(src_info('GenSelector.K_*', 'cssutils/css/selector.py', classes['Constants'].lineno, classes['Constants'].end_lineno))

    # ---- expected values
    values = {}   # string value -> constructor name
    order = []

    def intern(name, val):
        if val not in values:
            values[val] = 'E_' + name
            order.append(val)
        return values[val]

    # initial expected of the _parse call in _setSelectorText
    init = None
    for node in ast.walk(sel_funcs['_setSelectorText']):
        if isinstance(node, ast.Call) and isinstance(node.func, ast.Attribute) and node.func.attr == '_parse':
            for kw in node.keywords:
                if kw.arg == 'expected':
                    init = _const_expr(kw.value, C)
    if init is None:
        raise Untranslatable('_setSelectorText: initial expected not found')
    init_c = intern(*init)
    rets = {}
    for fn in PRODUCTION_FUNCS:
        if fn not in new_funcs:
            raise Untranslatable('production %s not found' % fn)
        rs = []
        for r in _returns_in_order(new_funcs[fn]):
            if r.value is None:
                raise Untranslatable('%s: bare return' % fn)
            ce = _const_expr(r.value, C)
            rs.append(None if ce is None else intern(*ce))
        rets[fn] = rs
    eof_c = intern('EOF', 'EOF')

    # ---- tests on expected
    words = []          # literals in  'w' in expected
    eq_consts = []      # (where, name, value) compared by == with expected
    for fn in PRODUCTION_FUNCS + ['append']:
        for node in ast.walk(new_funcs[fn]):
            if isinstance(node, ast.Compare) and len(node.ops) == 1:
                l, r = node.left, node.comparators[0]
                if isinstance(node.ops[0], ast.In) and _is_expected(r):
                    if not (isinstance(l, ast.Constant) and isinstance(l.value, str)):
                        raise Untranslatable('%s: non-literal `in expected` test' % fn)
                    if l.value not in words:
                        words.append(l.value)
                elif isinstance(node.ops[0], (ast.Eq, ast.NotEq)) and (_is_expected(l) or _is_expected(r)):
                    other = r if _is_expected(l) else l
                    ce = _const_expr(other, C)
                    eq_consts.append((fn, ce[0], ce[1]))
                elif _is_expected(l) or _is_expected(r):
                    raise Untranslatable('%s: unsupported test on expected: %s' % (fn, ast.dump(node)))
    post = []
    for node in ast.walk(sel_funcs['_setSelectorText']):
        if isinstance(node, ast.Compare) and len(node.ops) == 1 and isinstance(node.ops[0], ast.Eq):
            l, r = node.left, node.comparators[0]
            if _is_expected(l) or _is_expected(r):
                other = r if _is_expected(l) else l
                ce = _const_expr(other, C)
                post.append((node.lineno, ce[0], ce[1]))
    post.sort()
    if len(post) != 2:
        raise Untranslatable('_setSelectorText: expected exactly two post conditions on expected, found %r' % (post,))
    known_words = ['combinator', 'universal', 'prefix', 'type_selector', 'pseudo', 'attribute', 'value', 'class',
                   'HASH', ']', ')', 'attrib', 'negation']
    if sorted(words) != sorted(known_words):
        raise Untranslatable('words tested against expected changed: %r' % (sorted(set(words) ^ set(known_words)),))
    eqs = sorted(set((n, v) for _, n, v in eq_consts))
    if sorted(n for n, _ in eqs) != ['element_name', 'expression']:
        raise Untranslatable('equality tests on expected changed: %r' % (eqs,))

    ctors = [values[v] for v in order]
    out.append('\nInductive exp : Type :=\n' + ''.join('| %s\n' % c for c in ctors).rstrip('\n') + '.\n')
    out.append('Definition all_exp : list exp := [%s].\n' % '; '.join(ctors))
    out.append('Definition exp_str (e : exp) : str :=\n  match e with\n' +
               ''.join('  | %s => %s\n' % (values[v], coq_str(v)) for v in order) + '  end.\n')
    out.append('Definition exp_code (e : exp) : N :=\n  match e with\n' +
               ''.join('  | %s => %d\n' % (values[v], i) for i, v in enumerate(order)) + '  end.\n')
    out.append('Definition exp_eqb (a b : exp) : bool := N.eqb (exp_code a) (exp_code b).\n')
    out.append('Definition init_expected : exp := %s.\n' % init_c)
    out.append('Definition eof_expected : exp := %s.\n' % eof_c)

    def wname(w):
        return 'W_' + {']': 'rbracket', ')': 'rparen'}.get(w, w)
    out.append('\nInductive word : Type :=\n' + ''.join('| %s\n' % wname(w) for w in known_words).rstrip('\n') + '.\n')
    out.append('Definition all_words : list word := [%s].\n' % '; '.join(wname(w) for w in known_words))
    out.append('Definition word_str (w : word) : str :=\n  match w with\n' +
               ''.join('  | %s => %s\n' % (wname(w), coq_str(w)) for w in known_words) + '  end.\n')
    # truth table by Python's own substring test
    out.append('(* truth table of  word in expected  (computed by Python) *)\n')
    out.append('Definition has_word (w : word) (e : exp) : bool :=\n  match w, e with\n')
    for w in known_words:
        for v in order:
            if w in v:
                out.append('  | %s, %s => true\n' % (wname(w), values[v]))
    out.append('  | _, _ => false\n  end.\n')
    # equality tests
    for n, v in eqs:
        out.append('Definition is_%s (e : exp) : bool := str_eqb (exp_str e) %s.\n' % (n, coq_str(v)))
    out.append('Definition post_no_element_name (e : exp) : bool := str_eqb (exp_str e) %s.   (* %s *)\n' % (coq_str(post[0][2]), post[0][1]))
    out.append('Definition post_ends_with_combinator (e : exp) : bool := str_eqb (exp_str e) %s.   (* %s *)\n' % (coq_str(post[1][2]), post[1][1]))
    if post[0][2] != 'element_name' or post[1][2] != C.simple_selector_sequence:
        raise Untranslatable('post conditions of _setSelectorText changed: %r' % (post,))

    out.append('\n(* return expressions of the productions, in source order; None = `return expected` *)\n')
    for fn in PRODUCTION_FUNCS:
        for k, r in enumerate(rets[fn]):
            out.append('Definition ret_%s_%d : option exp := %s.\n' % (fn, k, 'None' if r is None else 'Some ' + r))
        info.append(src_info('GenSelector.ret_%s_*' % fn, 'cssutils/css/selector.py', new_funcs[fn].lineno, new_funcs[fn].end_lineno))
    shape = {fn: len(rets[fn]) for fn in PRODUCTION_FUNCS}
    want_shape = {'_COMMENT': 1, '_S': 3, '_universal': 3, '_namespace_prefix': 3, '_pseudo': 5, '_expression': 2,
                  '_attcombinator': 2, '_string': 3, '_ident': 6, '_class': 3, '_hash': 3, '_char': 12,
                  '_negation': 2, '_atkeyword': 1}
    if shape != want_shape:
        # (the pinned tree has 11 returns in _char: no `negationend` after the ')' of a functional pseudo inside :not();
        #  the model is written for the repaired code, fixes/C16-functional-pseudo-in-negation.patch)
        raise Untranslatable('number of return statements (found, modelled) differs: %r' % (
            {k: (shape[k], want_shape[k]) for k in shape if shape[k] != want_shape[k]},))

    # ---- item types (second argument of Seq.append): fixed list, checked against the AST literals
    lits = set()
    for fn in PRODUCTION_FUNCS:
        for node in ast.walk(new_funcs[fn]):
            if isinstance(node, ast.Call) and isinstance(node.func, ast.Attribute) and node.func.attr in ('append', 'replace') \
                    and len(node.args) >= 3 and isinstance(node.args[2], ast.Constant):
                lits.add(node.args[2].value)
            if isinstance(node, ast.Dict):
                for v in node.values:
                    if isinstance(v, ast.Constant) and isinstance(v.value, str):
                        lits.add(v.value)
    lits.discard('_PREFIX')
    unknown = lits - set(ITYPES)
    if unknown:
        raise Untranslatable('item types not known to the model: %r' % sorted(unknown))
    missing = set(ITYPES) - lits - set(TOKEN_DERIVED_ITYPES)
    if missing:
        raise Untranslatable('item types of the model no longer in the source: %r' % sorted(missing))

    def iname(t):
        return 'I_' + t.replace('-', '_')
    out.append('\nInductive ityp : Type :=\n' + ''.join('| %s\n' % iname(t) for t in ITYPES).rstrip('\n') + '.\n')
    out.append('Definition ityp_name (t : ityp) : str :=\n  match t with\n' +
               ''.join('  | %s => %s\n' % (iname(t), coq_str(t)) for t in ITYPES) + '  end.\n')
    out.append('Definition ityp_code (t : ityp) : N :=\n  match t with\n' +
               ''.join('  | %s => %d\n' % (iname(t), i) for i, t in enumerate(ITYPES)) + '  end.\n')
    out.append('Definition ityp_eqb (a b : ityp) : bool := N.eqb (ityp_code a) (ityp_code b).\n')
    # New.append: typ.endswith('-selector')  (the suffix literal is taken from the source)
    suffixes = set()
    for node in ast.walk(new_funcs['append']):
        if isinstance(node, ast.Call) and isinstance(node.func, ast.Attribute) and node.func.attr == 'endswith' \
                and isinstance(node.func.value, ast.Name) and node.func.value.id == 'typ':
            suffixes.add(node.args[0].value)
    if len(suffixes) != 1:
        raise Untranslatable('New.append: typ.endswith(...) test not found / not unique: %r' % (suffixes,))
    suffix = suffixes.pop()
    out.append('(* typ.endswith(%r), computed by Python for every item type *)\n' % suffix)
    out.append('Definition ityp_is_selector (t : ityp) : bool :=\n  match t with\n' +
               ''.join('  | %s => true\n' % iname(t) for t in ITYPES if t.endswith(suffix)) + '  | _ => false\n  end.\n')
    # ---- literal tuples
    legacy = None
    for node in ast.walk(new_funcs['_pseudo']):
        if isinstance(node, ast.Compare) and isinstance(node.ops[0], ast.In) and isinstance(node.comparators[0], ast.Tuple):
            legacy = [e.value for e in node.comparators[0].elts]
    counted = None
    for node in ast.walk(new_funcs['append']):
        if isinstance(node, ast.Compare) and isinstance(node.ops[0], ast.In) and isinstance(node.comparators[0], ast.Tuple) \
                and isinstance(node.left, ast.Name) and node.left.id == 'typ':
            t = [e.value for e in node.comparators[0].elts]
            if 'pseudo-element' in t:
                counted = t
    if legacy is None or counted is None:
        raise Untranslatable('literal tuples of _pseudo / append not found')
    out.append('\nDefinition legacy_pseudo_elements : list str := [%s].\n' % '; '.join(coq_str(x) for x in legacy))
    out.append('Definition counted_d_types : list ityp := [%s].\n' % '; '.join(iname(x) for x in counted))

    # ---- _prepare_tokens: how is the FUNCTION value compared with 'not(' ?
    mode = None
    for node in ast.walk(sel_funcs['_prepare_tokens']):
        if isinstance(node, ast.Compare) and len(node.ops) == 1 and isinstance(node.ops[0], ast.Eq):
            l, r = node.left, node.comparators[0]
            if isinstance(r, ast.Constant) and r.value == 'not(':
                if isinstance(l, ast.Name) and l.id == 'val':
                    mode = 'raw'
                elif isinstance(l, ast.Call) and isinstance(l.func, ast.Attribute) and l.func.attr == '_normalize' \
                        and len(l.args) == 1 and isinstance(l.args[0], ast.Name) and l.args[0].id == 'val':
                    mode = 'normalized'
                else:
                    raise Untranslatable("_prepare_tokens: unrecognised comparison with 'not(': %s" % ast.dump(l))
    if mode is None:
        raise Untranslatable("_prepare_tokens: comparison with 'not(' not found")
    out.append("\n(* _prepare_tokens compares %s with 'not(' *)\n" % ('self._normalize(val)' if mode == 'normalized' else 'val'))
    out.append('Definition negation_cmp_normalizes : bool := %s.\n' % ('true' if mode == 'normalized' else 'false'))
    info.append(src_info('GenSelector.negation_cmp_normalizes', 'cssutils/css/selector.py',
                         sel_funcs['_prepare_tokens'].lineno, sel_funcs['_prepare_tokens'].end_lineno))

    # ---- _S: is the `in '+-'` test guarded against comment items ?
    s_src = ast.unparse(new_funcs['_S'])
    guarded = "'COMMENT'" in s_src or 'isinstance' in s_src
    out.append("(* New._S guards the  seq[-1].value not in '+-'  test against non-string (comment) items *)\n")
    out.append('Definition s_guards_comment : bool := %s.\n' % ('true' if guarded else 'false'))

    # ---- whitespace per str.isspace and the serializer preferences
    ws = [c for c in range(sys.maxunicode + 1) if chr(c).isspace()]
    out.append('\nDefinition py_whitespace : list N := [%s].\n' % '; '.join(map(str, ws)))
    p = serialize.Preferences()
    for a in ('selectorCombinatorSpacer', 'listItemSpacer', 'propertyNameSpacer', 'paranthesisSpacer',
              'lineSeparator', 'indent', 'spacer'):
        out.append('Definition pref_%s : str := %s.\n' % (a, coq_str(getattr(p, a))))
    for a in ('keepComments', 'indentClosingBrace'):
        out.append('Definition pref_%s : bool := %s.\n' % (a, 'true' if getattr(p, a) else 'false'))
    info.append({'name': 'GenSelector.has_word', 'source': 'cssutils/css/selector.py New (truth table %d words x %d values)' % (
        len(known_words), len(order))})
    return ''.join(out), info
