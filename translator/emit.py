"""small helpers shared by the generators"""
import hashlib
import os

REPO = os.environ.get('VERIF_REPO', '/repo')


def coq_str(s):
    """Python str -> Coq term of type str (list N of code points)"""
    return '[' + '; '.join(str(ord(c)) for c in s) + ']'


def coq_bytes(b):
    return '[' + '; '.join(str(c) for c in b) + ']'


def file_sha(rel):
    with open(os.path.join(REPO, rel), 'rb') as f:
        return hashlib.sha1(f.read()).hexdigest()[:12]


def header(name, files):
    lines = ['(* %s.v - GENERATED from %s by /verif/translator; do not edit.' % (name, REPO)]
    for f in files:
        lines.append('   source %s sha1 %s' % (f, file_sha(f)))
    lines.append('*)')
    lines.append('From Coq Require Import List NArith ZArith Bool.')
    lines.append('From CssV Require Import Base.Regex Base.Tokens.')
    lines.append('Import ListNotations.')
    lines.append('Local Open Scope N_scope.')
    lines.append('')
    return '\n'.join(lines) + '\n'


def src_info(name, rel, lineno=None, end=None):
    return {'name': name, 'source': rel, 'lines': [lineno, end], 'file_sha1': file_sha(rel)}
