"""Regenerate coq/Gen/GenProfiles.v (property C14): the two base macro tables
of cssutils.profiles.Profiles and the raw tables (properties, macros) of the
predefined profiles, in the order and with the macro association the
constructor registers them (read back from a live ``Profiles()``: the
constructor hands ``macros[CSS3_FONTS]`` to the @font-face profile too).
Also the two literals of the macro expander / compiler, read from the AST of
profiles.py so that a change of the wrapping or of the macro-reference syntax
breaks the tie instead of going unnoticed."""
import ast
import os

from .emit import REPO, coq_str, header

NAME = 'GenProfiles'


def _pairs(d):
    for k, v in d.items():
        if not isinstance(k, str) or not isinstance(v, str):
            raise ValueError('non-string entry %r in a predefined table' % (k,))
    return '[' + ';\n    '.join('(%s, %s)' % (coq_str(k), coq_str(v)) for k, v in d.items()) + ']'


def _literals():
    """string constants used by _expand_macros / _compile_regexes"""
    src = open(os.path.join(REPO, 'cssutils/profiles.py')).read()
    tree = ast.parse(src)
    cls = [n for n in tree.body if isinstance(n, ast.ClassDef) and n.name == 'Profiles'][0]
    out = {}
    for fn in cls.body:
        if isinstance(fn, ast.FunctionDef) and fn.name in ('_expand_macros', '_compile_regexes'):
            out[fn.name] = [n.value for n in ast.walk(fn) if isinstance(n, ast.Constant) and isinstance(n.value, str)
                            and n.value != (ast.get_docstring(fn) or '')]
    return out


def generate():
    import cssutils
    from cssutils.profiles import Profiles
    p = Profiles(log=cssutils.log)
    lits = _literals()
    exp = [s for s in lits['_expand_macros'] if s not in ('__call__', 'macro')]
    comp = [s for s in lits['_compile_regexes'] if s != '__call__']
    # fail closed: the model hard-wires exactly this syntax
    want_exp = ['(?:%s)', '{[a-z][a-z0-9-]*}', '{(?P<macro>[a-z][a-z0-9-]*)}']
    if sorted(exp) != sorted(want_exp):
        raise ValueError('Profiles._expand_macros uses literals %r, the model was written for %r' % (exp, want_exp))
    if comp != ['^(?:%s)$']:
        raise ValueError('Profiles._compile_regexes uses literals %r, the model was written for %r' % (comp, ['^(?:%s)$']))
    out = [header('GenProfiles', ['cssutils/profiles.py'])]
    out.append('Definition token_macros : list (str * str) :=\n   %s.\n\n' % _pairs(Profiles._TOKEN_MACROS))
    out.append('Definition general_macros : list (str * str) :=\n   %s.\n\n' % _pairs(Profiles._MACROS))
    pre, post = '(?:%s)'.split('%s')
    out.append('Definition macro_open : str := %s.\nDefinition macro_close : str := %s.\n' % (coq_str(pre), coq_str(post)))
    pre, post = comp[0].split('%s')
    out.append('Definition pat_open : str := %s.\nDefinition pat_close : str := %s.\n\n' % (coq_str(pre), coq_str(post)))
    rows = []
    info = [{'name': 'GenProfiles.token_macros', 'source': 'cssutils/profiles.py Profiles._TOKEN_MACROS', 'n': len(Profiles._TOKEN_MACROS)},
            {'name': 'GenProfiles.general_macros', 'source': 'cssutils/profiles.py Profiles._MACROS', 'n': len(Profiles._MACROS)}]
    for i, name in enumerate(p.profiles):
        raw = p._rawProfiles[name]
        out.append('Definition builtin_props_%d : list (str * str) :=\n   %s.\n' % (i, _pairs(raw['properties'])))
        out.append('Definition builtin_macros_%d : list (str * str) :=\n   %s.\n\n' % (i, _pairs(raw['macros'])))
        rows.append('(%s, builtin_props_%d, builtin_macros_%d)' % (coq_str(name), i, i))
        info.append({'name': 'GenProfiles.builtin_%d' % i, 'source': 'cssutils/profiles.py profile %r' % name,
                     'n': [len(raw['properties']), len(raw['macros'])]})
    out.append('Definition builtin_profiles : list (str * list (str * str) * list (str * str)) :=\n  [%s].\n' % ';\n   '.join(rows))
    return ''.join(out), info
