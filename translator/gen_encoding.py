"""Regenerate coq/Gen/GenEncoding.v from /repo: the encoding precedence ladder of
cssutils.util._readUrl and the enctype hand-over of CSSImportRule._setHref,
translated statement by statement from their ASTs (fail-closed: any statement
shape this small translator does not know raises Untranslatable, which the
check reports as a broken tie).

What is translated generically: assignments of names / int / None / the
literal 'utf-8', tuple assignments from codec.detectencoding_*, if/elif/else
chains whose tests are truthiness of a name, isinstance(content, str),
`enctype == k` and `a < enctype < b`.
What is only *pinned* (source text compared with the text the hand model in
Model/Encoding.v was written against): the fetcher call and its guard, the
decode block, the return statements."""
import ast
import inspect
import textwrap

from .emit import header, src_info
from .regex2coq import Untranslatable

NAME = 'GenEncoding'

OPTION_VARS = {'overrideEncoding', 'httpEncoding', 'parentEncoding', 'contentEncoding', 'encoding',
               'usedEncoding', 'encodingOverride'}
BOOL_VARS = {'explicit'}

PIN_READURL_PRELUDE = [
    'enctype = None',
    'if not fetcher:\n    fetcher = _defaultFetcher',
    'r = fetcher(url)',
]
PIN_GUARD = 'r and len(r) == 2 and (r[1] is not None)'
PIN_GUARD_ELSE = 'return (None, None, None)'
PIN_UNPACK = 'httpEncoding, content = r'
PIN_DECODE = '''if isinstance(content, str):
    decodedCssText = content
else:
    try:
        try:
            decodedCssText = codecs.lookup('css')[1](content, encoding=encoding)[0]
        except AttributeError:
            decodedCssText = content.decode(encoding if encoding else 'utf-8')
    except Exception as e:
        log.warn(e, neverraise=True)
        decodedCssText = None'''
PIN_RETURN = 'return (encoding, enctype, decodedCssText)'


def _pin(node, want, what):
    got = ast.unparse(node)
    if got != want:
        raise Untranslatable('%s changed:\n%s\n-- expected --\n%s' % (what, got, want))


def _cond(t):
    if isinstance(t, ast.Name):
        if t.id in OPTION_VARS:
            return 'truthy %s' % t.id
        if t.id in BOOL_VARS:
            return t.id
        raise Untranslatable('test on unknown name %s' % t.id)
    if isinstance(t, ast.Call) and ast.unparse(t) == 'isinstance(content, str)':
        return 'content_is_str'
    if isinstance(t, ast.Compare) and all(isinstance(o, (ast.Eq, ast.Lt, ast.LtE)) for o in t.ops):
        terms = [t.left] + list(t.comparators)
        out = []
        for a, op, b in zip(terms, t.ops, terms[1:]):
            out.append('(%s %s %s)' % (_num(a), {'Eq': '=?', 'Lt': '<?', 'LtE': '<=?'}[type(op).__name__], _num(b)))
        return ' && '.join(out)
    raise Untranslatable('test %s' % ast.unparse(t))


def _num(e):
    if isinstance(e, ast.Constant) and isinstance(e.value, int) and not isinstance(e.value, bool) and e.value >= 0:
        return '%d' % e.value
    if isinstance(e, ast.Name) and e.id == 'enctype':
        return 'enctype'
    raise Untranslatable('numeric term %s' % ast.unparse(e))


def _value(v, enctype_is_option):
    if isinstance(v, ast.Constant):
        if v.value is None:
            return 'None'
        if isinstance(v.value, int) and not isinstance(v.value, bool) and v.value >= 0:
            return ('Some %d' if enctype_is_option else '%d') % v.value
        if v.value == 'utf-8':
            return 'Some enc_utf8'
        raise Untranslatable('constant %r' % (v.value,))
    if isinstance(v, ast.Name) and v.id in OPTION_VARS:
        return v.id
    raise Untranslatable('value %s' % ast.unparse(v))


def _stmts(stmts, final, ind, enctype_is_option=True):
    """statement list -> Coq expression ending in `final`"""
    pad = '  ' * ind
    if not stmts:
        return pad + final
    s, rest = stmts[0], stmts[1:]
    if isinstance(s, ast.Expr) and isinstance(s.value, ast.Constant) and isinstance(s.value.value, str):
        return _stmts(rest, final, ind, enctype_is_option)
    if isinstance(s, ast.Assign) and len(s.targets) == 1:
        t = s.targets[0]
        if isinstance(t, ast.Name):
            if t.id not in OPTION_VARS and t.id != 'enctype':
                raise Untranslatable('assignment to %s' % t.id)
            return '%slet %s : %s := %s in\n%s' % (pad, t.id, 'option N' if t.id == 'enctype' else 'option enc',
                                                  _value(s.value, enctype_is_option),
                                             _stmts(rest, final, ind, enctype_is_option))
        if isinstance(t, ast.Tuple) and all(isinstance(e, ast.Name) for e in t.elts):
            names = [e.id for e in t.elts]
            src = ast.unparse(s.value)
            if names == ['contentEncoding', 'explicit'] and src == 'codec.detectencoding_unicode(content)':
                rhs = 'detect_unicode'
            elif names == ['contentEncoding', 'explicit'] and src == 'codec.detectencoding_str(content)':
                rhs = 'detect_str'
            elif isinstance(s.value, ast.Tuple) and len(s.value.elts) == len(names):
                rhs = '((%s) : %s)' % (', '.join(_value(v, enctype_is_option) for v in s.value.elts),
                                       ' * '.join('option enc' for _ in names))
            else:
                raise Untranslatable('tuple assignment %s' % ast.unparse(s))
            return "%slet '(%s) := %s in\n%s" % (pad, ', '.join(names), rhs, _stmts(rest, final, ind, enctype_is_option))
    if isinstance(s, ast.If):
        return '%sif %s then\n%s\n%selse\n%s' % (
            pad, _cond(s.test),
            _stmts(list(s.body) + rest, final, ind + 1, enctype_is_option), pad,
            _stmts(list(s.orelse) + rest, final, ind + 1, enctype_is_option))
    raise Untranslatable('statement %s' % ast.unparse(s)[:120])


def _func(obj):
    src = textwrap.dedent(inspect.getsource(obj))
    f = ast.parse(src).body[0]
    body = list(f.body)
    if body and isinstance(body[0], ast.Expr) and isinstance(body[0].value, ast.Constant):
        body = body[1:]
    return f, body, inspect.getsourcelines(obj)[1]


def generate():
    import cssutils
    from cssutils import util
    from cssutils.css import cssimportrule
    out = [header('GenEncoding', ['cssutils/util.py', 'cssutils/css/cssimportrule.py'])]
    out.append('From Coq Require Import NArith Bool.\n'
               'Definition enc := N.\n'
               'Definition enc_utf8 : enc := 0.   (* the literal \'utf-8\'; other names are numbered by the harness *)\n'
               'Definition truthy (o : option enc) : bool := match o with Some _ => true | None => false end.\n\n')
    info = []

    # ---- _readUrl
    f, body, line = _func(util._readUrl)
    if [a.arg for a in f.args.args] != ['url', 'fetcher', 'overrideEncoding', 'parentEncoding']:
        raise Untranslatable('_readUrl signature changed')
    if len(body) != 4:
        raise Untranslatable('_readUrl: %d top-level statements, expected 4' % len(body))
    for node, want in zip(body[:3], PIN_READURL_PRELUDE):
        _pin(node, want, '_readUrl prelude')
    top = body[3]
    if not isinstance(top, ast.If):
        raise Untranslatable('_readUrl: no guard')
    _pin(top.test, PIN_GUARD, '_readUrl fetch-result guard')
    if len(top.orelse) != 1:
        raise Untranslatable('_readUrl: guard else branch')
    _pin(top.orelse[0], PIN_GUARD_ELSE, '_readUrl guard else')
    inner = list(top.body)
    if len(inner) != 4:
        raise Untranslatable('_readUrl: guarded block has %d statements, expected 4' % len(inner))
    _pin(inner[0], PIN_UNPACK, '_readUrl unpack')
    _pin(inner[2], PIN_DECODE, '_readUrl decode block')
    _pin(inner[3], PIN_RETURN, '_readUrl return')
    ladder = _stmts([body[0], inner[1]], '(encoding, enctype)', 1)
    out.append('(* cssutils/util.py:%d _readUrl, the if-chain that picks (encoding, enctype) *)\n' % line)
    out.append('Definition readurl_ladder (overrideEncoding httpEncoding : option enc) (content_is_str : bool)\n'
               '    (detect_unicode detect_str : option enc * bool) (parentEncoding : option enc)\n'
               '    : option enc * option N :=\n%s.\n\n' % ladder)
    out.append('(* the decode block: text is passed through, bytes go through the css codec with\n'
               '   the chosen encoding; any failure to decode -> None *)\n'
               'Definition readurl_decoded (content_is_str decodes : bool) : bool :=\n'
               '  if content_is_str then true else decodes.\n\n')
    info.append(src_info('GenEncoding.readurl_ladder', 'cssutils/util.py', line, line + len(inspect.getsourcelines(util._readUrl)[0])))
    info[-1]['hash'] = str(hash(ast.dump(inner[1])))

    # ---- CSSImportRule._setHref: enctype -> (encodingOverride, encoding)
    f2, body2, line2 = _func(cssimportrule.CSSImportRule._setHref)
    found = None
    for node in ast.walk(f2):
        if isinstance(node, ast.Try):
            for i, s in enumerate(node.body):
                if ast.unparse(s) == 'encodingOverride, encoding = (None, None)' and i >= 2 and i + 1 < len(node.body) \
                        and isinstance(node.body[i + 1], ast.If):
                    found = node.body
                    idx = i
    if found is None:
        raise Untranslatable('_setHref: hand-over block not found')
    _pin(found[idx - 2], 'usedEncoding, enctype, cssText = self.parentStyleSheet._resolveImport(fullhref)', '_setHref resolve call')
    _pin(found[idx - 1], "if cssText is None:\n    raise OSError('Cannot read Stylesheet.')", '_setHref None check')
    tail = [ast.unparse(s) for s in found[idx + 2:]]
    want_tail = ['importedSheet._href = fullhref',
                 'importedSheet._setFetcher(self.parentStyleSheet._fetcher)',
                 # the hand-over itself, with the error mode switched to logging around it and put back
                 'raising = self._log.raiseExceptions',
                 'self._log.raiseExceptions = False',
                 'try:\n    importedSheet._setCssTextWithEncodingOverride(cssText, encodingOverride=encodingOverride, encoding=encoding)\n'
                 'finally:\n    self._log.raiseExceptions = raising']
    if tail != want_tail:
        raise Untranslatable('_setHref: tail changed: %r' % tail)
    hand = _stmts(found[idx:idx + 2], '(encodingOverride, encoding)', 1, enctype_is_option=False)
    out.append('(* cssutils/css/cssimportrule.py:%d _setHref, enctype -> (encodingOverride, encoding) *)\n' % line2)
    out.append('Definition sethref_handover (usedEncoding : option enc) (enctype : N) : option enc * option enc :=\n%s.\n' % hand)
    info.append(src_info('GenEncoding.sethref_handover', 'cssutils/css/cssimportrule.py', line2, None))
    info[-1]['hash'] = str(hash(ast.dump(found[idx + 1])))
    return ''.join(out), info
