"""Regenerate coq/Gen/GenPrefs.v: the Preferences attribute table after
useDefaults() and after useMinified() (live objects), as association lists
name -> value (strings as str, booleans, None)."""
from .emit import coq_str, header

NAME = 'GenPrefs'


def _val(v):
    if v is True:
        return 'PBool true'
    if v is False:
        return 'PBool false'
    if v is None:
        return 'PNone'
    if isinstance(v, str):
        return 'PStr %s' % coq_str(v)
    raise ValueError('unsupported preference value %r' % (v,))


def generate():
    from cssutils.serialize import Preferences
    p = Preferences()
    p.useDefaults()
    d = dict(p.__dict__)
    p.useMinified()
    m = dict(p.__dict__)
    out = [header('GenPrefs', ['cssutils/serialize.py'])]
    out.append('Inductive pval := PBool (b : bool) | PStr (s : str) | PNone.\n')
    for name, tbl in (('defaults', d), ('minified', m)):
        out.append('Definition prefs_%s : list (str * pval) :=\n  [%s].\n' % (
            name, ';\n   '.join('(%s, %s) (* %s *)' % (coq_str(k), _val(v), k) for k, v in sorted(tbl.items()))))
    out.append('Definition pref_names : list str := [%s].\n' % '; '.join(coq_str(k) for k in sorted(d)))
    info = [{'name': 'GenPrefs.prefs_defaults', 'source': 'cssutils/serialize.py Preferences.useDefaults (%d attributes)' % len(d),
             'hash': str(sorted((k, repr(v)) for k, v in d.items()))[:40]},
            {'name': 'GenPrefs.prefs_minified', 'source': 'cssutils/serialize.py Preferences.useMinified', 'hash': str(len(m))}]
    return ''.join(out), info
