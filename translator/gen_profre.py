"""Regenerate coq/Gen/GenProfRe.v: every compiled validation pattern of a fresh
Profiles() registry (macro-expanded by the code itself, wrapped and flagged as
util.LazyRegex will compile it) as a Coq `re`, per profile in registry order."""
from . import regex2coq as R
from .emit import coq_str, header

NAME = 'GenProfRe'


def generate():
    import cssutils
    from cssutils.profiles import Profiles
    P = Profiles(log=cssutils.log)
    out = [header('GenProfRe', ['cssutils/profiles.py', 'cssutils/util.py'])]
    em = R.DagEmitter()
    rows = []
    info = []
    for pi, prof in enumerate(P.profiles):
        for name, lz in P._profilesProperties[prof].items():
            if not hasattr(lz, 'pattern'):
                raise R.Untranslatable('validator of %s/%s is not a LazyRegex' % (prof, name))
            t = R.translate(lz.pattern, lz.flags, drop_bol=True)
            root = em.add(t)
            rows.append((pi, name, root))
            info.append({'name': 'GenProfRe.pattern %d/%s' % (pi, name), 'source': 'profiles.py %s' % prof, 'hash': R.tree_hash(t)})
    out.append('From CssV Require Import Base.RegexDag.\n')
    out.append(em.text('prf'))
    out.append('Definition profile_names : list str :=\n  [%s].\n' % ';\n   '.join(coq_str(p) for p in P.profiles))
    out.append('Definition pattern_roots : list (nat * str * nat) :=\n  [%s].\n' % ';\n   '.join(
        '(%d%%nat, %s, %d%%nat)' % (pi, coq_str(name), root) for pi, name, root in rows))
    return ''.join(out), info
