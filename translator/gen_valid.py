"""Regenerate coq/Gen/GenValid.v: how each class aggregates `valid` (property
C13: "a rule or sheet is valid iff all its declarations are").  A tiny
AST-to-term translator for the seven `valid` accessors; fail-closed: a body of
an unknown shape becomes `AggUnknown` and the theorems of Props/C13.v about
the aggregation (stated for the recognised shapes) no longer check.

  AggProps b      all(p.valid for p in self.getProperties(all=b))
  AggStyle        self.style.valid
  AggRules        for rule in self.cssRules: if hasattr(rule, 'valid') and not rule.valid: return False; return True
  AggStyleRules   self.style.valid and all(rule.valid for rule in self.cssRules)
  AggFontFace     every declaration valid, and font-family and src present
"""
import ast
import os

from .emit import REPO, header

NAME = 'GenValid'

SITES = [
    ('agg_declaration', 'cssutils/css/cssstyledeclaration.py', 'CSSStyleDeclaration'),
    ('agg_stylerule', 'cssutils/css/cssstylerule.py', 'CSSStyleRule'),
    ('agg_marginrule', 'cssutils/css/marginrule.py', 'MarginRule'),
    ('agg_mediarule', 'cssutils/css/cssmediarule.py', 'CSSMediaRule'),
    ('agg_pagerule', 'cssutils/css/csspagerule.py', 'CSSPageRule'),
    ('agg_fontfacerule', 'cssutils/css/cssfontfacerule.py', 'CSSFontFaceRule'),
    ('agg_sheet', 'cssutils/css/cssstylesheet.py', 'CSSStyleSheet'),
]


def _dotted(node):
    parts = []
    while isinstance(node, ast.Attribute):
        parts.append(node.attr)
        node = node.value
    if isinstance(node, ast.Name):
        parts.append(node.id)
        return '.'.join(reversed(parts))
    return None


def _strip_doc(body):
    if body and isinstance(body[0], ast.Expr) and isinstance(getattr(body[0], 'value', None), ast.Constant) \
            and isinstance(body[0].value.value, str):
        return body[1:]
    return body


def _all_valid_over(node):
    """all(X.valid for X in <iter>) -> the iterable node, else None"""
    if not (isinstance(node, ast.Call) and isinstance(node.func, ast.Name) and node.func.id == 'all'
            and len(node.args) == 1 and not node.keywords and isinstance(node.args[0], ast.GeneratorExp)):
        return None
    g = node.args[0]
    if len(g.generators) != 1 or g.generators[0].ifs or g.generators[0].is_async:
        return None
    tgt = g.generators[0].target
    if not (isinstance(tgt, ast.Name) and _dotted(g.elt) == tgt.id + '.valid'):
        return None
    return g.generators[0].iter


def _get_properties_all(node):
    """self.getProperties(all=<bool>) / self.getProperties() -> bool, else None"""
    if not (isinstance(node, ast.Call) and _dotted(node.func) == 'self.getProperties' and not node.args):
        return None
    if not node.keywords:
        return False
    if len(node.keywords) == 1 and node.keywords[0].arg == 'all' and isinstance(node.keywords[0].value, ast.Constant) \
            and isinstance(node.keywords[0].value.value, bool):
        return node.keywords[0].value.value
    return None


def _expr(node):
    """translate the returned expression"""
    if _dotted(node) == 'self.style.valid':
        return 'AggStyle'
    it = _all_valid_over(node)
    if it is not None:
        b = _get_properties_all(it)
        if b is not None:
            return 'AggProps %s' % ('true' if b else 'false')
    if isinstance(node, ast.BoolOp) and isinstance(node.op, ast.And) and len(node.values) == 2 \
            and _dotted(node.values[0]) == 'self.style.valid':
        it = _all_valid_over(node.values[1])
        if it is not None and _dotted(it) == 'self.cssRules':
            return 'AggStyleRules'
    return None


def _is_return_const(stmt, value):
    return isinstance(stmt, ast.Return) and isinstance(stmt.value, ast.Constant) and stmt.value.value is value


def _rules_loop(body):
    """for rule in self.cssRules: if hasattr(rule, 'valid') and not rule.valid: return False / return True"""
    if len(body) != 2 or not isinstance(body[0], ast.For) or not _is_return_const(body[1], True):
        return False
    f = body[0]
    if f.orelse or not isinstance(f.target, ast.Name) or _dotted(f.iter) != 'self.cssRules' or len(f.body) != 1:
        return False
    v = f.target.id
    i = f.body[0]
    if not (isinstance(i, ast.If) and not i.orelse and len(i.body) == 1 and _is_return_const(i.body[0], False)):
        return False
    t = i.test
    if not (isinstance(t, ast.BoolOp) and isinstance(t.op, ast.And) and len(t.values) == 2):
        return False
    h, n = t.values
    ok_h = (isinstance(h, ast.Call) and isinstance(h.func, ast.Name) and h.func.id == 'hasattr' and len(h.args) == 2
            and isinstance(h.args[0], ast.Name) and h.args[0].id == v and isinstance(h.args[1], ast.Constant) and h.args[1].value == 'valid')
    ok_n = isinstance(n, ast.UnaryOp) and isinstance(n.op, ast.Not) and _dotted(n.operand) == v + '.valid'
    return ok_h and ok_n


def _fontface(body):
    """needed = ['font-family', 'src']; for p in self.style.getProperties(all=True): if not p.valid: return False;
    try: needed.remove(p.name) except ValueError: pass; return not bool(needed)"""
    if len(body) != 3:
        return False
    a, f, r = body
    if not (isinstance(a, ast.Assign) and len(a.targets) == 1 and isinstance(a.targets[0], ast.Name) and isinstance(a.value, ast.List)
            and [getattr(e, 'value', None) for e in a.value.elts] == ['font-family', 'src']):
        return False
    nm = a.targets[0].id
    if not (isinstance(f, ast.For) and not f.orelse and isinstance(f.target, ast.Name) and len(f.body) == 2):
        return False
    it = f.iter
    if not (isinstance(it, ast.Call) and _dotted(it.func) == 'self.style.getProperties' and not it.args and len(it.keywords) == 1
            and it.keywords[0].arg == 'all' and getattr(it.keywords[0].value, 'value', None) is True):
        return False
    v = f.target.id
    i, t = f.body
    if not (isinstance(i, ast.If) and not i.orelse and isinstance(i.test, ast.UnaryOp) and isinstance(i.test.op, ast.Not)
            and _dotted(i.test.operand) == v + '.valid' and len(i.body) == 1 and _is_return_const(i.body[0], False)):
        return False
    if not (isinstance(t, ast.Try) and len(t.body) == 1 and not t.orelse and not t.finalbody and len(t.handlers) == 1):
        return False
    c = t.body[0]
    if not (isinstance(c, ast.Expr) and isinstance(c.value, ast.Call) and _dotted(c.value.func) == nm + '.remove'
            and len(c.value.args) == 1 and _dotted(c.value.args[0]) == v + '.name'):
        return False
    h = t.handlers[0]
    if not (_dotted(h.type) == 'ValueError' and len(h.body) == 1 and isinstance(h.body[0], ast.Pass)):
        return False
    # return not bool(needed)
    rv = r.value if isinstance(r, ast.Return) else None
    return (isinstance(rv, ast.UnaryOp) and isinstance(rv.op, ast.Not) and isinstance(rv.operand, ast.Call)
            and isinstance(rv.operand.func, ast.Name) and rv.operand.func.id == 'bool' and len(rv.operand.args) == 1
            and _dotted(rv.operand.args[0]) == nm)


def translate_site(rel, clsname):
    with open(os.path.join(REPO, rel), encoding='utf-8') as f:
        tree = ast.parse(f.read())
    cls = next((n for n in tree.body if isinstance(n, ast.ClassDef) and n.name == clsname), None)
    if cls is None:
        return 'AggUnknown', 'class %s not found' % clsname
    # valid = property(<getter>, ...)
    prop = None
    for n in cls.body:
        if isinstance(n, ast.Assign) and len(n.targets) == 1 and isinstance(n.targets[0], ast.Name) and n.targets[0].id == 'valid':
            prop = n.value
    if not (isinstance(prop, ast.Call) and isinstance(prop.func, ast.Name) and prop.func.id == 'property' and prop.args):
        return 'AggUnknown', 'no valid = property(...)'
    if any(k.arg in ('fset', 'fdel') for k in prop.keywords) or len(prop.args) > 1:
        return 'AggUnknown', 'valid has a setter'
    g = prop.args[0]
    if isinstance(g, ast.Lambda):
        if [a.arg for a in g.args.args] != ['self']:
            return 'AggUnknown', 'lambda arguments'
        e = _expr(g.body)
        return (e, 'lambda') if e else ('AggUnknown', 'lambda body not recognised: ' + ast.unparse(g.body))
    if not isinstance(g, ast.Name):
        return 'AggUnknown', 'getter is not a name'
    fn = next((n for n in cls.body if isinstance(n, ast.FunctionDef) and n.name == g.id), None)
    if fn is None or [a.arg for a in fn.args.args] != ['self'] or fn.decorator_list:
        return 'AggUnknown', 'getter %s not found' % g.id
    body = _strip_doc(fn.body)
    if len(body) == 1 and isinstance(body[0], ast.Return) and body[0].value is not None:
        e = _expr(body[0].value)
        if e:
            return e, g.id
    if _rules_loop(body):
        return 'AggRules', g.id
    if _fontface(body):
        return 'AggFontFace', g.id
    return 'AggUnknown', 'body of %s not recognised: %s' % (g.id, ast.unparse(fn)[:300].replace('*)', '* )'))


def generate():
    out = [header('GenValid', [rel for _, rel, _ in SITES])]
    out.append('Inductive agg := AggProps (all : bool) | AggStyle | AggRules | AggStyleRules | AggFontFace | AggUnknown.\n\n')
    info = []
    for name, rel, cls in SITES:
        try:
            term, why = translate_site(rel, cls)
        except Exception as e:   # fail-closed
            term, why = 'AggUnknown', '%s: %s' % (type(e).__name__, e)
        out.append('(* %s.valid in %s: %s *)\n' % (cls, rel, why.replace('(*', '( *').replace('*)', '* )')))
        out.append('Definition %s : agg := %s.\n' % (name, term))
        info.append({'name': name, 'source': rel, 'term': term})
    return ''.join(out), info
