"""Regenerate coq/Gen/GenProps.v: known CSS property names (in the order
cssproperties.py walks cssutils.profiles.properties) and the two DOM-name
regexes."""
from . import regex2coq as R
from .emit import coq_str, header


def generate():
    import cssutils
    from cssutils.css import cssproperties as cp
    out = [header('GenProps', ['cssutils/css/cssproperties.py', 'cssutils/profiles.py'])]
    em = R.Emitter('props')
    t1 = R.translate(cp._reCSStoDOMname.pattern, cp._reCSStoDOMname.flags)
    t2 = R.translate(cp._reDOMtoCSSname.pattern, cp._reDOMtoCSSname.flags)
    for t in (t1, t2):
        if R.nullable(t) or R.has_nullable_loop(t):
            raise R.Untranslatable('nullable DOM-name regex')
    em.prepare([t1, t2])
    em.define('re_css_to_dom', t1)
    em.define('re_dom_to_css', t2)
    out.append(em.text())
    names = []
    for group in cssutils.profiles.properties:
        for name in cssutils.profiles.properties[group]:
            names.append(name)
    out.append('Definition known_names : list str :=\n  [%s].\n' % ';\n   '.join(coq_str(n) for n in names))
    out.append('Definition dom_names : list str :=\n  [%s].\n' % ';\n   '.join(coq_str(n) for n in cp.CSS2Properties._properties))
    # the CSS name each generated accessor actually uses (closure cell of the property's getter)
    rows = []
    for dom in cp.CSS2Properties._properties:
        prop = getattr(cp.CSS2Properties, dom)
        cells = {n: c.cell_contents for n, c in zip(prop.fget.__code__.co_freevars, prop.fget.__closure__)}
        if not isinstance(cells.get('CSSname'), str):
            raise R.Untranslatable('accessor of %s has no CSSname cell' % dom)
        rows.append('(%s, %s)' % (coq_str(dom), coq_str(cells['CSSname'])))
    out.append('Definition accessor_table : list (str * str) :=\n  [%s].\n' % ';\n   '.join(rows))
    info = [{'name': 'GenProps.re_css_to_dom', 'source': 'cssutils/css/cssproperties.py _reCSStoDOMname', 'hash': R.tree_hash(t1)},
            {'name': 'GenProps.re_dom_to_css', 'source': 'cssutils/css/cssproperties.py _reDOMtoCSSname', 'hash': R.tree_hash(t2)},
            {'name': 'GenProps.known_names', 'source': 'cssutils.profiles.properties (%d names)' % len(names), 'hash': str(hash(tuple(names)))}]
    return ''.join(out), info
