"""Regenerate coq/Gen/GenLex.v from /repo: tokenizer productions (macro-expanded
by the code's own _expand_macros), escape regexes, at-keyword table, the
literal sets used inside Tokenizer.tokenize (taken from its AST), the simple
escape regex of helper.normalize and Python's str.lower() table."""
import ast
import inspect
import re
import textwrap

from . import regex2coq as R
from .emit import coq_str, header, src_info

TOKTY = ['BOM', 'S', 'URI', 'UNICODE-RANGE', 'IDENT', 'FUNCTION', 'DIMENSION',
         'PERCENTAGE', 'NUMBER', 'HASH', 'COMMENT', 'STRING', 'INVALID', 'ATKEYWORD',
         'INCLUDES', 'DASHMATCH', 'PREFIXMATCH', 'SUFFIXMATCH', 'SUBSTRINGMATCH',
         'CDO', 'CDC', 'CHAR', 'EOF', 'CHARSET_SYM', 'FONT_FACE_SYM', 'MEDIA_SYM',
         'IMPORT_SYM', 'NAMESPACE_SYM', 'PAGE_SYM', 'VARIABLES_SYM']


def tokty(name):
    if name not in TOKTY:
        raise R.Untranslatable('unknown token kind %r' % name)
    return 'T_' + name.replace('-', '_')


def _string_collection(node, tokenize2):
    """a collection of token names written as a tuple / list / set literal, or a class attribute of Tokenizer
    (self.X / Tokenizer.X) holding a tuple / list / set / frozenset of strings -> sorted list, else None"""
    vals = None
    if isinstance(node, (ast.Tuple, ast.List, ast.Set)) and all(isinstance(e, ast.Constant) and isinstance(e.value, str) for e in node.elts):
        vals = [e.value for e in node.elts]
    elif isinstance(node, ast.Attribute) and isinstance(node.value, ast.Name) and node.value.id in ('self', 'Tokenizer', 'cls'):
        v = getattr(tokenize2.Tokenizer, node.attr, None)
        if isinstance(v, (tuple, list, set, frozenset)) and all(isinstance(x, str) for x in v):
            vals = list(v)
    if vals is None:
        return None
    return sorted(set(vals), key=lambda n: (TOKTY.index(n) if n in TOKTY else 999, n))


def _tokenize_literals(tokenize2):
    """pull the literal sets out of Tokenizer.tokenize's AST (fail-closed)"""
    src = textwrap.dedent(inspect.getsource(tokenize2.Tokenizer.tokenize))
    tree = ast.parse(src)
    fast = None
    tuples = []
    for node in ast.walk(tree):
        if isinstance(node, ast.Compare) and len(node.ops) == 1 and isinstance(node.ops[0], ast.In):
            comp = node.comparators[0]
            if isinstance(node.left, ast.Name) and node.left.id == 'c' and isinstance(comp, ast.Constant):
                fast = comp.value
            if isinstance(node.left, ast.Name) and node.left.id == 'name':
                names = _string_collection(comp, tokenize2)
                if names is not None:
                    tuples.append(names)
    if fast is None or len(tuples) != 2:
        raise R.Untranslatable('Tokenizer.tokenize: literal sets not found (%r, %r)' % (fast, tuples))
    decoding = max(tuples, key=len)
    cleaning = min(tuples, key=len)
    return fast, decoding, cleaning


def generate():
    import cssutils  # noqa: F401
    from cssutils import tokenize2, helper, cssproductions
    T = tokenize2.Tokenizer()
    expanded = T._expand_macros(cssproductions.MACROS, cssproductions.PRODUCTIONS)
    out = [header('GenLex', ['cssutils/cssproductions.py', 'cssutils/tokenize2.py', 'cssutils/helper.py'])]
    em = R.Emitter('lex')
    trees = []
    info = []
    for name, pat in expanded:
        t = R.translate('(?:%s)' % pat, re.U)
        if R.has_nullable_loop(t):
            raise R.Untranslatable('production %s: nullable loop body' % name)
        trees.append((name, t))
        info.append({'name': 'GenLex.lex_' + name, 'source': 'cssutils/cssproductions.py PRODUCTIONS[%s]' % name,
                     'hash': R.tree_hash(t)})
    usub = R.translate(tokenize2.Tokenizer.unicodesub.__self__.pattern, tokenize2.Tokenizer.unicodesub.__self__.flags)
    clean = R.translate(tokenize2.Tokenizer.cleanstring.__self__.pattern, tokenize2.Tokenizer.cleanstring.__self__.flags)
    simple = R.translate(helper._simpleescapes.__self__.pattern, helper._simpleescapes.__self__.flags)
    for nm, t in (('unicodesub', usub), ('cleanstring', clean), ('simpleescapes', simple)):
        if R.nullable(t) or R.has_nullable_loop(t):
            raise R.Untranslatable('%s: nullable' % nm)
        info.append({'name': 'GenLex.%s_re' % nm, 'source': 'tokenize2.py/helper.py', 'hash': R.tree_hash(t)})
    em.prepare([t for _, t in trees] + [usub, clean, simple])
    for name, t in trees:
        em.define('lex_' + name.replace('-', '_'), t)
    em.define('unicodesub_re', usub)
    em.define('cleanstring_re', clean)
    em.define('simpleescapes_re', simple)
    out.append(em.text())
    out.append('Definition productions : list (tokty * re) :=\n  [%s].\n' % ';\n   '.join(
        '(%s, lex_%s)' % (tokty(n), n.replace('-', '_')) for n, _ in trees))
    fast, decoding, cleaning = _tokenize_literals(tokenize2)
    out.append('Definition fastchars : str := %s.\n' % coq_str(fast))
    out.append('Definition decoding_kinds : list tokty := [%s].\n' % '; '.join(tokty(n) for n in decoding))
    out.append('Definition cleaning_kinds : list tokty := [%s].\n' % '; '.join(tokty(n) for n in cleaning))
    atk = tokenize2.Tokenizer._atkeywords
    out.append('Definition atkeywords : list (str * tokty) :=\n  [%s].\n' % ';\n   '.join(
        '(%s, %s)' % (coq_str(k), tokty(v)) for k, v in atk.items()))
    out.append('Definition maxunicode : N := %d.\n' % __import__('sys').maxunicode)
    # str.lower() table
    rows = []
    for c in range(0x110000):
        lo = chr(c).lower()
        if lo != chr(c):
            rows.append('(%d, [%s])' % (c, '; '.join(str(ord(x)) for x in lo)))
    out.append('Definition lower_table : list (N * str) :=\n  [%s].\n' % ';\n   '.join(rows))
    return ''.join(out), info
