"""Regenerate coq/Gen/GenGlobals.v: which of the three state-hygiene
mechanisms the current source has (property C12).  Purely structural (ast),
fail-closed: a shape that is not recognised yields `false`, and then the
theorems of Props/C12.v (stated for the tree as it is) no longer check.

tree_finally   cssutils/parse.py: parseStyle and parseString do all their work
               inside `with self.__parseSetting():`, a contextmanager whose
               restore of cssutils.log.raiseExceptions sits in a `finally`
               around the single `yield`; nothing else in the file assigns it
tree_calltime  the value restored there was read from
               cssutils.log.raiseExceptions in the same function, before the
               switch (not in __init__)
tree_saved     cssutils/prodparser.py: ProdParser.__init__ empties savedTokens
               when it clears the tokenizer; cssutils/stylesheets/mediaquery.py:
               a query that is not part of a list empties it after parsing
"""
import ast
import os

from .emit import REPO, header, src_info

NAME = 'GenGlobals'

LOGMODE = 'cssutils.log.raiseExceptions'


def _src(rel):
    with open(os.path.join(REPO, rel), encoding='utf-8') as f:
        return ast.parse(f.read())


def _dotted(node):
    parts = []
    while isinstance(node, ast.Attribute):
        parts.append(node.attr)
        node = node.value
    if isinstance(node, ast.Name):
        parts.append(node.id)
        return '.'.join(reversed(parts))
    return None


def _cls(tree, name):
    for n in tree.body:
        if isinstance(n, ast.ClassDef) and n.name == name:
            return n
    return None


def _method(cls, name):
    for n in cls.body:
        if isinstance(n, ast.FunctionDef) and n.name == name:
            return n
    return None


def _strip_doc(body):
    if body and isinstance(body[0], ast.Expr) and isinstance(getattr(body[0], 'value', None), ast.Constant) \
            and isinstance(body[0].value.value, str):
        return body[1:]
    return body


def _assigns_mode(fn):
    """all statements under fn assigning cssutils.log.raiseExceptions"""
    out = []
    for n in ast.walk(fn):
        if isinstance(n, ast.Assign):
            for t in n.targets:
                if _dotted(t) == LOGMODE:
                    out.append(n)
        elif isinstance(n, (ast.AugAssign, ast.AnnAssign)) and _dotted(n.target) == LOGMODE:
            out.append(n)
    return out


def analyse_parse():
    tree = _src('cssutils/parse.py')
    cls = _cls(tree, 'CSSParser')
    if cls is None:
        return False, False, 'no class CSSParser'
    ps = _method(cls, '_CSSParser__parseSetting') or _method(cls, '__parseSetting')
    if ps is None:
        return False, False, 'no __parseSetting'
    # nothing but __parseSetting touches the mode
    for n in cls.body:
        if isinstance(n, ast.FunctionDef) and n is not ps and _assigns_mode(n):
            return False, False, '%s assigns the mode directly' % n.name
    deco = [_dotted(d) for d in ps.decorator_list]
    if deco != ['contextlib.contextmanager'] or len(ps.args.args) != 1:
        return False, False, '__parseSetting is not a one-argument contextmanager'
    body = _strip_doc(ps.body)
    # local = cssutils.log.raiseExceptions ; cssutils.log.raiseExceptions = self.__parseRaising ; try: yield finally: restore
    if len(body) != 3:
        return False, False, '__parseSetting body has %d statements' % len(body)
    save, switch, tr = body
    calltime = (isinstance(save, ast.Assign) and len(save.targets) == 1 and isinstance(save.targets[0], ast.Name)
                and _dotted(save.value) == LOGMODE)
    local = save.targets[0].id if calltime else None
    if not (isinstance(switch, ast.Assign) and len(switch.targets) == 1 and _dotted(switch.targets[0]) == LOGMODE
            and (_dotted(switch.value) or '').startswith('self.')):
        return False, False, 'second statement is not the switch to the parser mode'
    fin = (isinstance(tr, ast.Try) and not tr.handlers and not tr.orelse
           and len(tr.body) == 1 and isinstance(tr.body[0], ast.Expr) and isinstance(tr.body[0].value, ast.Yield)
           and len(tr.finalbody) == 1 and isinstance(tr.finalbody[0], ast.Assign)
           and len(tr.finalbody[0].targets) == 1 and _dotted(tr.finalbody[0].targets[0]) == LOGMODE)
    if not fin:
        return False, False, 'restore is not in a finally around a single yield'
    restored = tr.finalbody[0].value
    calltime = calltime and isinstance(restored, ast.Name) and restored.id == local
    # both switching methods: with self.__parseSetting(): <everything> ; return name
    for mname in ('parseStyle', 'parseString', '_parseDecoded'):
        m = _method(cls, mname)
        if m is None:
            if mname == '_parseDecoded':
                continue
            return False, False, 'no method %s' % mname
        b = _strip_doc(m.body)
        # everything happens inside one `with self.__parseSetting():` (the result may be
        # returned from inside it or by a trailing `return name`)
        ok = (len(b) in (1, 2) and isinstance(b[0], ast.With) and len(b[0].items) == 1
              and isinstance(b[0].items[0].context_expr, ast.Call)
              and (_dotted(b[0].items[0].context_expr.func) or '').endswith('__parseSetting')
              and not b[0].items[0].context_expr.args
              and ((len(b) == 2 and isinstance(b[1], ast.Return) and isinstance(b[1].value, ast.Name))
                   or (len(b) == 1 and isinstance(b[0].body[-1], ast.Return))))
        if not ok:
            return False, False, '%s does not do its work inside `with self.__parseSetting():`' % mname
    # the other two entry points delegate to parseString and never touch the mode themselves
    for mname in ('parseFile', 'parseUrl'):
        m = _method(cls, mname)
        if m is None or not any(isinstance(n, ast.Call) and (_dotted(n.func) or '') in ('self.parseString', 'self._parseDecoded')
                                for n in ast.walk(m)):
            return False, False, '%s does not delegate to parseString' % mname
    return True, bool(calltime), 'ok'


def _empties_saved(stmt, names):
    """`del X[:]` or `X.clear()` for X in names"""
    if isinstance(stmt, ast.Delete) and len(stmt.targets) == 1:
        t = stmt.targets[0]
        if isinstance(t, ast.Subscript) and _dotted(t.value) in names and isinstance(t.slice, ast.Slice) \
                and t.slice.lower is None and t.slice.upper is None and t.slice.step is None:
            return True
    if isinstance(stmt, ast.Expr) and isinstance(stmt.value, ast.Call) and not stmt.value.args:
        f = stmt.value.func
        if isinstance(f, ast.Attribute) and f.attr == 'clear' and _dotted(f.value) in names:
            return True
    return False


def analyse_saved():
    tree = _src('cssutils/prodparser.py')
    cls = _cls(tree, 'ProdParser')
    init = _method(cls, '__init__') if cls else None
    if init is None:
        return False, 'no ProdParser.__init__'
    ok_init = False
    for n in init.body:
        if isinstance(n, ast.If) and isinstance(n.test, ast.Name) and n.test.id == 'clear' and not n.orelse:
            ok_init = any(_empties_saved(s, ('savedTokens',)) for s in n.body)
    if not ok_init:
        return False, 'ProdParser.__init__ does not empty savedTokens'
    tree = _src('cssutils/stylesheets/mediaquery.py')
    cls = _cls(tree, 'MediaQuery')
    m = _method(cls, '_setMediaText') if cls else None
    if m is None:
        return False, 'no MediaQuery._setMediaText'
    body = m.body
    for i, n in enumerate(body):
        is_parse = (isinstance(n, ast.Assign) and isinstance(n.value, ast.Call)
                    and isinstance(n.value.func, ast.Attribute) and n.value.func.attr == 'parse')
        if is_parse and i + 1 < len(body):
            nx = body[i + 1]
            if (isinstance(nx, ast.If) and isinstance(nx.test, ast.UnaryOp) and isinstance(nx.test.op, ast.Not)
                    and _dotted(nx.test.operand) == 'self._partof' and not nx.orelse
                    and any(_empties_saved(s, ('cssutils.prodparser.savedTokens', 'savedTokens')) for s in nx.body)):
                return True, 'ok'
    return False, 'a standalone MediaQuery does not empty savedTokens after parsing'


def analyse():
    try:
        fin, ct, why1 = analyse_parse()
    except Exception as e:   # fail-closed
        fin, ct, why1 = False, False, '%s: %s' % (type(e).__name__, e)
    try:
        sv, why2 = analyse_saved()
    except Exception as e:
        sv, why2 = False, '%s: %s' % (type(e).__name__, e)
    return {'finally': fin, 'calltime': ct, 'saved': sv, 'parse.py': why1, 'prodparser/mediaquery': why2}


def generate():
    a = analyse()
    b = lambda x: 'true' if x else 'false'   # noqa: E731
    out = [header('GenGlobals', ['cssutils/parse.py', 'cssutils/prodparser.py', 'cssutils/stylesheets/mediaquery.py'])]
    out.append('(* parse.py: %s; prodparser.py/mediaquery.py: %s *)\n' % (a['parse.py'], a['prodparser/mediaquery']))
    out.append('Definition tree_finally : bool := %s.\n' % b(a['finally']))
    out.append('Definition tree_calltime : bool := %s.\n' % b(a['calltime']))
    out.append('Definition tree_saved : bool := %s.\n' % b(a['saved']))
    info = [dict(src_info('GenGlobals.tree_finally', 'cssutils/parse.py'), value=a['finally'], why=a['parse.py']),
            dict(src_info('GenGlobals.tree_calltime', 'cssutils/parse.py'), value=a['calltime'], why=a['parse.py']),
            dict(src_info('GenGlobals.tree_saved', 'cssutils/prodparser.py'), value=a['saved'], why=a['prodparser/mediaquery'])]
    return ''.join(out), info
