"""Regenerate coq/Gen/GenEnc.v from /repo's encutils/__init__.py (property C20):

* the text-type constants,
* `_getTextTypeByMediaType` as an ordered rule list (membership-or-regex, equality,
  prefix) taken from the function's AST, with the two media-type regexes translated
  under the flags written at the call site,
* the default-encoding dict of `encodingByMediaType`,
* `_getTextType`: window length and marker,
* `detectXMLEncoding`: BOM dict (in dict order), the probe templates of the three
  `bomDict.get` calls, read sizes, the XML declaration regex split at its named
  group, the default,
* Python's `str.isspace` set (for `str.strip()`) and `str.lower()` table.

Fail-closed: any statement of the translated functions that does not have the
expected shape raises Untranslatable (reported as a broken translation)."""
import ast
import inspect
import re
import textwrap

from . import regex2coq as R
from .emit import coq_str, header
from .regex2coq import sre_parse, C

NAME = 'GenEnc'


def U(msg):
    return R.Untranslatable('encutils: ' + msg)


def _fn_ast(fn):
    tree = ast.parse(textwrap.dedent(inspect.getsource(fn)))
    f = tree.body[0]
    if not isinstance(f, ast.FunctionDef):
        raise U('%s is not a plain function' % fn.__name__)
    body = list(f.body)
    if body and isinstance(body[0], ast.Expr) and isinstance(body[0].value, ast.Constant) and isinstance(body[0].value.value, str):
        body = body[1:]  # docstring
    return f, body


def _is_name(n, name):
    return isinstance(n, ast.Name) and n.id == name


def _const_name(enc, node):
    """a Name that refers to a module-level int constant -> its value"""
    if not isinstance(node, ast.Name) or not isinstance(getattr(enc, node.id, None), int):
        raise U('expected a text-type constant, got %s' % ast.dump(node))
    return getattr(enc, node.id)


def _ret_const(enc, stmts):
    if len(stmts) != 1 or not isinstance(stmts[0], ast.Return):
        raise U('branch is not a single return: %s' % [ast.dump(s) for s in stmts])
    return _const_name(enc, stmts[0].value)


def _flags(node):
    """re.I | re.S | re.X  -> int"""
    if isinstance(node, ast.BinOp) and isinstance(node.op, ast.BitOr):
        return _flags(node.left) | _flags(node.right)
    if isinstance(node, ast.Attribute) and _is_name(node.value, 're') and isinstance(getattr(re, node.attr, None), re.RegexFlag):
        return int(getattr(re, node.attr))
    raise U('flags expression %s' % ast.dump(node))


def _translate(pattern, flags, whole=True):
    """pattern -> (parse tree items, effective flags) with VERBOSE resolved by CPython's parser"""
    if flags & (re.L | re.M | re.A):
        raise U('unsupported regex flags %r' % flags)
    p = sre_parse.parse(pattern, flags)
    eff = (p.state.flags | flags) & ~re.X
    return p, eff


def _tree(items, flags):
    return R._seq([R._conv(op, av, flags) for op, av in items])


def _classifier(enc):
    f, body = _fn_ast(enc._getTextTypeByMediaType)
    arg = f.args.args[0].arg
    lists = {}
    rules = []
    empty = None
    normalised = False
    chain = None
    for st in body:
        if (isinstance(st, ast.If) and isinstance(st.test, ast.UnaryOp) and isinstance(st.test.op, ast.Not)
                and _is_name(st.test.operand, arg) and not st.orelse and empty is None and not normalised):
            empty = _ret_const(enc, st.body)
        elif (isinstance(st, ast.Assign) and len(st.targets) == 1 and isinstance(st.targets[0], ast.Name)
              and isinstance(st.value, ast.List)):
            vals = []
            for e in st.value.elts:
                if not (isinstance(e, ast.Constant) and isinstance(e.value, str)):
                    raise U('non-literal in %s' % st.targets[0].id)
                vals.append(e.value)
            lists[st.targets[0].id] = vals
        elif isinstance(st, ast.Assign) and len(st.targets) == 1 and _is_name(st.targets[0], arg):
            want = ast.dump(ast.parse('%s.strip().lower()' % arg).body[0].value)
            if ast.dump(st.value) != want or normalised:
                raise U('normalisation of the media type changed: %s' % ast.unparse(st))
            normalised = True
        elif isinstance(st, ast.If) and chain is None and normalised:
            chain = st
        else:
            raise U('unexpected statement in _getTextTypeByMediaType: %s' % ast.unparse(st)[:80])
    if empty is None or not normalised or chain is None:
        raise U('_getTextTypeByMediaType: shape not recognised')
    regexes = []
    node = chain
    while True:
        t = node.test
        ret = _ret_const(enc, node.body)
        if (isinstance(t, ast.BoolOp) and isinstance(t.op, ast.Or) and len(t.values) == 2
                and isinstance(t.values[0], ast.Compare) and _is_name(t.values[0].left, arg)
                and len(t.values[0].ops) == 1 and isinstance(t.values[0].ops[0], ast.In)
                and isinstance(t.values[0].comparators[0], ast.Name)
                and isinstance(t.values[1], ast.Call)
                and ast.dump(t.values[1].func) == ast.dump(ast.parse('re.match').body[0].value)
                and len(t.values[1].args) == 3 and not t.values[1].keywords):
            lname = t.values[0].comparators[0].id
            pat, subj, fl = t.values[1].args
            if not (isinstance(pat, ast.Subscript) and isinstance(pat.value, ast.Name) and isinstance(pat.slice, ast.Constant)
                    and isinstance(pat.slice.value, int) and _is_name(subj, arg)):
                raise U('re.match arguments: %s' % ast.unparse(t))
            if lname not in lists or pat.value.id not in lists:
                raise U('unknown list in %s' % ast.unparse(t))
            pattern = lists[pat.value.id][pat.slice.value]
            flags = _flags(fl)
            p, eff = _translate(pattern, flags)
            if p.state.groups != 1:
                raise U('groups in media-type regex')
            tree = _tree(list(p), eff)
            rname = 'mt_re%d' % len(regexes)
            regexes.append((rname, tree, pattern, flags))
            rules.append(('RInOrMatch', lname, rname, ret))
        elif (isinstance(t, ast.Compare) and _is_name(t.left, arg) and len(t.ops) == 1 and isinstance(t.ops[0], ast.Eq)
              and isinstance(t.comparators[0], ast.Constant) and isinstance(t.comparators[0].value, str)):
            rules.append(('REq', t.comparators[0].value, None, ret))
        elif (isinstance(t, ast.Call) and isinstance(t.func, ast.Attribute) and t.func.attr == 'startswith'
              and _is_name(t.func.value, arg) and len(t.args) == 1 and isinstance(t.args[0], ast.Constant)
              and isinstance(t.args[0].value, str) and not t.keywords):
            rules.append(('RPrefix', t.args[0].value, None, ret))
        else:
            raise U('condition not recognised: %s' % ast.unparse(t))
        if len(node.orelse) == 1 and isinstance(node.orelse[0], ast.If):
            node = node.orelse[0]
        else:
            final = _ret_const(enc, node.orelse)
            break
    return lists, regexes, rules, empty, final


def _defaults(enc):
    f, body = _fn_ast(enc.encodingByMediaType)
    arg = f.args.args[0].arg
    table = None
    rest = []
    for st in body:
        if (isinstance(st, ast.Assign) and len(st.targets) == 1 and _is_name(st.targets[0], 'defaultencodings')
                and isinstance(st.value, ast.Dict)):
            table = []
            for k, v in zip(st.value.keys, st.value.values):
                if not (isinstance(v, ast.Constant) and (v.value is None or isinstance(v.value, str))):
                    raise U('default encoding value %s' % ast.dump(v))
                table.append((_const_name(enc, k), v.value))
        elif isinstance(st, ast.If) and _is_name(st.test, 'log'):
            continue  # logging only
        else:
            rest.append(ast.unparse(st))
    want = ['texttype = _getTextTypeByMediaType(%s)' % arg, 'encoding = defaultencodings.get(texttype, None)', 'return encoding']
    if table is None or rest != want:
        raise U('encodingByMediaType: shape not recognised: %r' % rest)
    if len(set(k for k, _ in table)) != len(table):
        raise U('duplicate keys in defaultencodings')
    return table


def _texttype(enc):
    f, body = _fn_ast(enc._getTextType)
    arg = f.args.args[0].arg
    if len(body) != 1 or not isinstance(body[0], ast.If):
        raise U('_getTextType: shape')
    st = body[0]
    yes, no = _ret_const(enc, st.body), _ret_const(enc, st.orelse)
    t = st.test
    ok = (isinstance(t, ast.Compare) and len(t.ops) == 1 and isinstance(t.ops[0], ast.NotEq)
          and ast.dump(t.comparators[0]) == ast.dump(ast.parse('-1').body[0].value)
          and isinstance(t.left, ast.Call) and isinstance(t.left.func, ast.Attribute) and t.left.func.attr == 'find'
          and len(t.left.args) == 1 and isinstance(t.left.args[0], ast.Constant) and isinstance(t.left.args[0].value, str))
    if not ok:
        raise U('_getTextType: test %s' % ast.unparse(t))
    marker = t.left.args[0].value
    subj = t.left.func.value
    # text[:N]  or  _chars(text[:N])  (bytes looked at one byte per character)
    if isinstance(subj, ast.Call) and _is_name(subj.func, '_chars') and len(subj.args) == 1:
        subj = subj.args[0]
    if not (isinstance(subj, ast.Subscript) and _is_name(subj.value, arg) and isinstance(subj.slice, ast.Slice)
            and subj.slice.lower is None and subj.slice.step is None and isinstance(subj.slice.upper, ast.Constant)
            and isinstance(subj.slice.upper.value, int) and subj.slice.upper.value >= 0):
        raise U('_getTextType: subject %s' % ast.unparse(subj))
    return subj.slice.upper.value, marker, yes, no


def _sniffer(enc):
    f, body = _fn_ast(enc.detectXMLEncoding)
    bom = None
    pattern = None
    compile_flags = None
    probes = []
    reads = []
    group = None
    defaults = []
    unpack = None
    for node in ast.walk(f):
        if isinstance(node, ast.Assign) and len(node.targets) == 1:
            tg = node.targets[0]
            if _is_name(tg, 'bomDict'):
                if not isinstance(node.value, ast.Dict) or bom is not None:
                    raise U('bomDict')
                bom = []
                for k, v in zip(node.value.keys, node.value.values):
                    if not (isinstance(k, ast.Tuple) and isinstance(v, ast.Constant) and isinstance(v.value, str) and v.value):
                        raise U('bomDict entry')
                    key = []
                    for e in k.elts:
                        if not (isinstance(e, ast.Constant) and (e.value is None or (isinstance(e.value, int) and 0 <= e.value))):
                            raise U('bomDict key element')
                        key.append(e.value)
                    bom.append((tuple(key), v.value))
            elif _is_name(tg, 'xmlDeclPattern'):
                if not (isinstance(node.value, ast.Constant) and isinstance(node.value.value, str)) or pattern is not None:
                    raise U('xmlDeclPattern')
                pattern = node.value.value
            elif isinstance(tg, ast.Tuple) and all(isinstance(e, ast.Name) and e.id.startswith('byte') for e in tg.elts):
                unpack = [e.id for e in tg.elts]
        if isinstance(node, ast.Call) and isinstance(node.func, ast.Attribute):
            if node.func.attr == 'compile' and _is_name(node.func.value, 're'):
                if len(node.args) != 2 or not _is_name(node.args[0], 'xmlDeclPattern') or compile_flags is not None:
                    raise U('re.compile call')
                compile_flags = _flags(node.args[1])
            elif node.func.attr == 'get' and _is_name(node.func.value, 'bomDict'):
                if len(node.args) != 1 or not isinstance(node.args[0], ast.Tuple):
                    raise U('bomDict.get call')
                probes.append((node.lineno, node.col_offset, node.args[0].elts))
            elif node.func.attr == 'read' and _is_name(node.func.value, 'fp'):
                if len(node.args) != 1 or not (isinstance(node.args[0], ast.Constant) and isinstance(node.args[0].value, int)):
                    raise U('fp.read call')
                reads.append((node.lineno, node.args[0].value))
            elif node.func.attr == 'group' and _is_name(node.func.value, 'match'):
                if len(node.args) != 1 or not isinstance(node.args[0], ast.Constant):
                    raise U('match.group call')
                group = node.args[0].value
            elif node.func.attr == 'search':
                if not (_is_name(node.func.value, 'xmlDeclRE') and len(node.args) == 1 and _is_name(node.args[0], 'buffer')):
                    raise U('search call')
        if isinstance(node, ast.Return) and isinstance(node.value, ast.Constant) and isinstance(node.value.value, str):
            defaults.append(node.value.value)
    if bom is None or pattern is None or compile_flags is None or group is None or unpack is None:
        raise U('detectXMLEncoding: parts not found')
    n = len(unpack)
    if unpack != ['byte%d' % (i + 1) for i in range(n)]:
        raise U('unpack target %r' % unpack)
    if any(len(k) != n for k, _ in bom) or len(set(k for k, _ in bom)) != len(bom):
        raise U('bomDict keys')
    reads = [r for _, r in sorted(reads)]
    if len(reads) != 2 or reads[0] != n:
        raise U('reads %r' % reads)
    tpl = []
    for _, _, elts in sorted(probes, key=lambda x: x[:2]):
        if len(elts) != n:
            raise U('probe width')
        row = []
        for i, e in enumerate(elts):
            if _is_name(e, 'byte%d' % (i + 1)):
                row.append(True)
            elif isinstance(e, ast.Constant) and e.value is None:
                row.append(False)
            else:
                raise U('probe element %s' % ast.dump(e))
        tpl.append(row)
    if len(defaults) != 1:
        raise U('default encodings %r' % defaults)
    # the declaration regex: ^ prefix (?P<group>...) suffix ; search == match at 0 because of ^ without MULTILINE
    p, eff = _translate(pattern, compile_flags)
    items = list(p)
    if not items or items[0][0] is not C.AT or items[0][1] is not C.AT_BEGINNING:
        raise U('declaration pattern does not start with ^')
    items = items[1:]
    gidx = p.state.groupdict.get(group)
    if gidx is None or p.state.groups != 2:
        raise U('declaration pattern: exactly the one named group %r expected' % group)
    where = [i for i, (op, av) in enumerate(items) if op is C.SUBPATTERN and av[0] == gidx]
    if len(where) != 1:
        raise U('named group is not a top-level item')
    w = where[0]
    pre, grp, post = _tree(items[:w], eff), _tree([items[w]], eff), _tree(items[w + 1:], eff)
    for t in (pre, grp, post):
        if R.has_nullable_loop(t):
            raise U('nullable loop in declaration pattern')
    return bom, tpl, reads, (pre, grp, post, pattern, compile_flags), defaults[0], group


def _opt_str(s):
    return 'None' if s is None else '(Some %s)' % coq_str(s)


def generate():
    import encutils as enc
    out = [header('GenEnc', ['encutils/__init__.py'])]
    info = []
    consts = [('tt_xml_app', '_XML_APPLICATION_TYPE'), ('tt_xml_text', '_XML_TEXT_TYPE'), ('tt_html', '_HTML_TEXT_TYPE'),
              ('tt_text', '_TEXT_TYPE'), ('tt_text_utf8', '_TEXT_UTF8'), ('tt_other', '_OTHER_TYPE')]
    vals = []
    for cn, pn in consts:
        v = getattr(enc, pn, None)
        if not isinstance(v, int) or v < 0:
            raise U('constant %s' % pn)
        vals.append(v)
        out.append('Definition %s : N := %d.\n' % (cn, v))
    if len(set(vals)) != len(vals):
        raise U('text-type constants are not distinct')
    lists, regexes, rules, empty, final = _classifier(enc)
    bom, tpl, reads, (pre, grp, post, dpat, dflags), default, group = _sniffer(enc)
    em = R.Emitter('enc')
    em.prepare([t for _, t, _, _ in regexes] + [pre, grp, post])
    for rname, t, pat, fl in regexes:
        em.define(rname, t)
        info.append({'name': 'GenEnc.' + rname, 'source': 'encutils/__init__.py _getTextTypeByMediaType %r flags=%d' % (pat, fl),
                     'hash': R.tree_hash(t)})
    em.define('decl_pre', pre)
    em.define('decl_enc', grp)
    em.define('decl_post', post)
    info.append({'name': 'GenEnc.decl_pre/decl_enc/decl_post', 'source': 'encutils/__init__.py detectXMLEncoding xmlDeclPattern flags=%d group=%s' % (dflags, group),
                 'hash': R.tree_hash(('cat', pre, ('cat', grp, post)))})
    out.append(em.text())
    for ln, vs in lists.items():
        out.append('Definition mtl_%s : list str :=\n  [%s].\n' % (ln, ';\n   '.join(coq_str(v) for v in vs)))
    out.append('Inductive mrule := RInOrMatch (l : list str) (r : re) | REq (s : str) | RPrefix (s : str).\n')
    rows = []
    for kind, a, b, ret in rules:
        if kind == 'RInOrMatch':
            rows.append('(RInOrMatch mtl_%s %s, %d)' % (a, b, ret))
        else:
            rows.append('(%s %s, %d)' % (kind, coq_str(a), ret))
    out.append('Definition classify_rules : list (mrule * N) :=\n  [%s].\n' % ';\n   '.join(rows))
    out.append('Definition classify_empty : N := %d.\nDefinition classify_else : N := %d.\n' % (empty, final))
    info.append({'name': 'GenEnc.classify_rules', 'source': 'encutils/__init__.py _getTextTypeByMediaType (AST, %d rules)' % len(rules),
                 'hash': R.tree_hash((tuple(rules), empty, final, tuple(sorted(lists.items()))).__repr__())})
    table = _defaults(enc)
    out.append('Definition default_encodings : list (N * option str) :=\n  [%s].\n' % ';\n   '.join(
        '(%d, %s)' % (k, _opt_str(v)) for k, v in table))
    info.append({'name': 'GenEnc.default_encodings', 'source': 'encutils/__init__.py encodingByMediaType', 'hash': R.tree_hash(repr(table))})
    win, marker, yes, no = _texttype(enc)
    out.append('Definition texttype_window : nat := %d%%nat.\nDefinition texttype_marker : str := %s.\n'
               'Definition texttype_yes : N := %d.\nDefinition texttype_no : N := %d.\n' % (win, coq_str(marker), yes, no))
    info.append({'name': 'GenEnc.texttype_marker', 'source': 'encutils/__init__.py _getTextType', 'hash': R.tree_hash(repr((win, marker, yes, no)))})
    out.append('Definition bom_table : list (list (option N) * str) :=\n  [%s].\n' % ';\n   '.join(
        '([%s], %s)' % ('; '.join('None' if e is None else 'Some %d' % e for e in k), coq_str(v)) for k, v in bom))
    out.append('Definition bom_probes : list (list bool) :=\n  [%s].\n' % '; '.join(
        '[%s]' % '; '.join('true' if b else 'false' for b in row) for row in tpl))
    out.append('Definition bom_read : nat := %d%%nat.\nDefinition decl_window : nat := %d%%nat.\n' % (reads[0], reads[1]))
    out.append('Definition xml_default : str := %s.\n' % coq_str(default))
    info.append({'name': 'GenEnc.bom_table', 'source': 'encutils/__init__.py detectXMLEncoding bomDict + probes', 'hash': R.tree_hash(repr((bom, tpl, reads, default)))})
    # str.isspace (what str.strip() removes) and str.lower()
    sp = R._ranges([c for c in range(0x110000) if chr(c).isspace()])
    out.append('Definition py_space : cls := [%s].\n' % '; '.join('(%d, %d)' % r for r in sp))
    rows = []
    for c in range(0x110000):
        lo = chr(c).lower()
        if lo != chr(c):
            rows.append('(%d, [%s])' % (c, '; '.join(str(ord(x)) for x in lo)))
    out.append('Definition enc_lower_table : list (N * str) :=\n  [%s].\n' % ';\n   '.join(rows))
    return ''.join(out), info
