"""Regenerate coq/Gen/GenValue.v (property C18) from /repo:

* the three capture groups of DimensionValue.__reUnNumDim as separate regexes
  (sign, number, rest) - the top level of the pattern must be exactly
  ^(g1)(g2)(g3)$, anything else is Untranslatable;
* reHexcolor of css/value.py and of prodparser.PreDef;
* helper._match_forbidden_in_uri;
* the colour keyword table css/colors.py COLORS (alpha must be 0.0 or 1.0);
* the list of units dropped from a zero value and the '%f' conversion
  constant, taken from the AST of CSSSerializer.do_css_Value;
* CSSSerializer._hash and CSSSerializer._strip_zeros translated statement by
  statement from their AST into Gallina (tiny Python subset, fail-closed).
"""
import ast
import inspect
import re
import textwrap

from . import regex2coq as R
from .emit import coq_str, header

NAME = 'GenValue'

try:
    from re import _parser as sre_parse, _constants as C
except ImportError:  # pragma: no cover
    import sre_parse, sre_constants as C


PRELUDE = r'''
(* ---- Python string primitives used by the translated functions ---- *)
Definition py_get (s : str) (i : nat) : N := nth i s 0.
Fixpoint py_index (c : N) (s : str) : nat :=
  match s with [] => 0%nat | x :: t => if x =? c then 0%nat else S (py_index c t) end.
Definition py_slice (s : str) (a b : nat) : str := firstn (b - a) (skipn a s).
Fixpoint py_rstrip (c : N) (s : str) : str :=
  match s with
  | [] => []
  | x :: t => match py_rstrip c t with
              | [] => if x =? c then [] else [x]
              | r => x :: r
              end
  end.
'''


# ---------------------------------------------------------------- regex parts

def _strip_verbose(pattern, flags):
    """re.X only matters when the pattern contains whitespace or '#'"""
    if flags & re.X:
        if re.search(r'\s', pattern) or '#' in pattern:
            raise R.Untranslatable('VERBOSE pattern with whitespace or comment')
        flags &= ~re.X
    return flags


def numdim_groups(rx):
    flags = _strip_verbose(rx.pattern, rx.flags)
    p = sre_parse.parse(rx.pattern, flags)
    fl = p.state.flags | flags
    items = list(p)
    if len(items) != 5:
        raise R.Untranslatable('__reUnNumDim: expected ^(..)(..)(..)$, got %d items' % len(items))
    (o0, a0), g1, g2, g3, (o4, a4) = items
    if not (o0 is C.AT and a0 is C.AT_BEGINNING and o4 is C.AT and a4 is C.AT_END):
        raise R.Untranslatable('__reUnNumDim: anchors')
    trees = []
    for k, (op, av) in enumerate((g1, g2, g3)):
        if op is not C.SUBPATTERN or av[0] != k + 1 or av[1] or av[2]:
            raise R.Untranslatable('__reUnNumDim: group %d' % (k + 1))
        trees.append(R._conv_seq(av[3], fl, False, False))
    # the last group is followed by `$`
    trees[2] = ('cat', trees[2], ('eol',)) if trees[2] != ('eps',) else ('eol',)
    return trees


# ---------------------------------------------------------------- mini Python -> Gallina

class Py2Gallina:
    """Translates a straight-line Python method over strings into a Gallina
    function.  Types: 'str' (list N), 'chr' (N, a 1-character string used only
    in comparisons and f-strings), 'nat', 'bool'.  self.prefs.<x> becomes a
    bool parameter <x>."""

    def __init__(self, fn, name, params):
        self.name = name
        self.params = params              # python param name -> type
        self.prefs = []                   # bool parameters discovered
        src = textwrap.dedent(inspect.getsource(fn))
        self.fdef = ast.parse(src).body[0]
        if not isinstance(self.fdef, ast.FunctionDef):
            raise R.Untranslatable('%s: not a function' % name)
        self.env = dict(params)

    def fail(self, node, what):
        raise R.Untranslatable('%s: unsupported %s at line %d: %s' % (
            self.name, what, getattr(node, 'lineno', 0), ast.dump(node)[:120]))

    # expressions -> (text, type)
    def expr(self, e):
        if isinstance(e, ast.Name):
            if e.id not in self.env:
                self.fail(e, 'name')
            return e.id, self.env[e.id]
        if isinstance(e, ast.Constant):
            if isinstance(e.value, str):
                return coq_str(e.value), 'str'
            if isinstance(e.value, int) and not isinstance(e.value, bool) and e.value >= 0:
                return '%d%%nat' % e.value, 'nat'
            self.fail(e, 'constant')
        if isinstance(e, ast.Attribute):
            # self.prefs.X
            v = e.value
            if (isinstance(v, ast.Attribute) and v.attr == 'prefs' and isinstance(v.value, ast.Name)
                    and v.value.id == 'self'):
                if e.attr not in self.prefs:
                    self.prefs.append(e.attr)
                return e.attr, 'bool'
            self.fail(e, 'attribute')
        if isinstance(e, ast.BinOp) and isinstance(e.op, ast.Add):
            (a, ta), (b, tb) = self.expr(e.left), self.expr(e.right)
            if ta == tb == 'str':
                return '(%s ++ %s)' % (a, b), 'str'
            if ta == tb == 'nat':
                return '(%s + %s)%%nat' % (a, b), 'nat'
            self.fail(e, 'operand types of +')
        if isinstance(e, ast.BoolOp) and isinstance(e.op, ast.And):
            parts = [self.expr(v) for v in e.values]
            if any(t != 'bool' for _, t in parts):
                self.fail(e, 'non-boolean operand of and')
            return '(' + ' && '.join(p for p, _ in parts) + ')', 'bool'
        if isinstance(e, ast.Compare) and len(e.ops) == 1 and isinstance(e.ops[0], ast.Eq):
            (a, ta), (b, tb) = self.expr(e.left), self.expr(e.comparators[0])
            if ta == tb == 'nat':
                return '(Nat.eqb %s %s)' % (a, b), 'bool'
            if ta == tb == 'chr':
                return '(N.eqb %s %s)' % (a, b), 'bool'
            self.fail(e, 'comparison types')
        if isinstance(e, ast.Subscript):
            s, ts = self.expr(e.value)
            if ts != 'str':
                self.fail(e, 'subscript of non-string')
            sl = e.slice
            if isinstance(sl, ast.Slice):
                if sl.step is not None or sl.lower is None or sl.upper is None:
                    self.fail(e, 'slice form')
                (a, ta), (b, tb) = self.expr(sl.lower), self.expr(sl.upper)
                if ta != 'nat' or tb != 'nat':
                    self.fail(e, 'slice bounds')
                return '(py_slice %s %s %s)' % (s, a, b), 'str'
            i, ti = self.expr(sl)
            if ti != 'nat':
                self.fail(e, 'index')
            return '(py_get %s %s)' % (s, i), 'chr'
        if isinstance(e, ast.Call):
            f = e.func
            if isinstance(f, ast.Name) and f.id == 'len' and len(e.args) == 1 and not e.keywords:
                s, ts = self.expr(e.args[0])
                if ts != 'str':
                    self.fail(e, 'len of non-string')
                return '(length %s)' % s, 'nat'
            if isinstance(f, ast.Attribute) and f.attr in ('index', 'rstrip') and len(e.args) == 1 and not e.keywords:
                s, ts = self.expr(f.value)
                a = e.args[0]
                if ts != 'str' or not (isinstance(a, ast.Constant) and isinstance(a.value, str) and len(a.value) == 1):
                    self.fail(e, 'method call')
                if f.attr == 'index':
                    return '(py_index %d %s)' % (ord(a.value), s), 'nat'
                return '(py_rstrip %d %s)' % (ord(a.value), s), 'str'
            self.fail(e, 'call')
        if isinstance(e, ast.JoinedStr):
            parts = []
            for v in e.values:
                if isinstance(v, ast.Constant) and isinstance(v.value, str):
                    parts.append(coq_str(v.value))
                elif isinstance(v, ast.FormattedValue) and v.conversion == -1 and v.format_spec is None:
                    t, ty = self.expr(v.value)
                    if ty == 'chr':
                        parts.append('[%s]' % t)
                    elif ty == 'str':
                        parts.append(t)
                    else:
                        self.fail(e, 'f-string field type')
                else:
                    self.fail(e, 'f-string part')
            return '(' + ' ++ '.join(parts) + ')', 'str'
        self.fail(e, 'expression')

    def block(self, stmts, ind):
        if not stmts:
            raise R.Untranslatable('%s: control reaches the end without return' % self.name)
        st, rest = stmts[0], stmts[1:]
        pad = ' ' * ind
        if isinstance(st, ast.Expr) and isinstance(st.value, ast.Constant) and isinstance(st.value.value, str):
            return self.block(rest, ind)  # docstring
        if isinstance(st, ast.Return):
            t, ty = self.expr(st.value)
            if ty != 'str':
                self.fail(st, 'return type')
            return pad + t
        if isinstance(st, ast.Assign) and len(st.targets) == 1:
            tg = st.targets[0]
            if isinstance(tg, ast.Name):
                pairs = [(tg, st.value)]
            elif isinstance(tg, ast.Tuple) and isinstance(st.value, ast.Tuple) and len(tg.elts) == len(st.value.elts) \
                    and all(isinstance(x, ast.Name) for x in tg.elts):
                pairs = list(zip(tg.elts, st.value.elts))
            else:
                self.fail(st, 'assignment')
            # tuple assignment evaluates all right-hand sides first
            vals = [self.expr(v) for _, v in pairs]
            if len(pairs) > 1:
                names = {n.id for n, _ in pairs}
                for _, v in pairs:
                    if names & {x.id for x in ast.walk(v) if isinstance(x, ast.Name)}:
                        self.fail(st, 'tuple assignment reading its own targets')
            out = []
            for (n, _), (t, ty) in zip(pairs, vals):
                self.env[n.id] = ty
                out.append('%slet %s := %s in' % (pad, n.id, t))
            return '\n'.join(out) + '\n' + self.block(rest, ind)
        if isinstance(st, ast.If) and not st.orelse:
            c, tc = self.expr(st.test)
            if tc != 'bool':
                self.fail(st, 'condition type')
            # the body must end in return, so the rest is the else-branch
            if not isinstance(st.body[-1], ast.Return):
                self.fail(st, 'if without final return')
            saved = dict(self.env)
            a = self.block(st.body, ind + 2)
            self.env = saved
            b = self.block(rest, ind + 2)
            return '%sif %s then\n%s\n%selse\n%s' % (pad, c, a, pad, b)
        self.fail(st, 'statement')

    def translate(self):
        args = [a.arg for a in self.fdef.args.args]
        if args[0] != 'self':
            raise R.Untranslatable('%s: not a method' % self.name)
        body = self.block(self.fdef.body, 2)
        ps = ''.join(' (%s : bool)' % p for p in self.prefs)
        ps += ''.join(' (%s : str)' % a for a in args[1:] if a in self.params)
        return 'Definition %s%s : str :=\n%s.\n' % (self.name, ps, body)


# ---------------------------------------------------------------- constants from do_css_Value

def _do_css_value_constants(fn):
    src = textwrap.dedent(inspect.getsource(fn))
    tree = ast.parse(src)
    units = None
    fmts = set()
    for node in ast.walk(tree):
        if isinstance(node, ast.Compare) and len(node.ops) == 1 and isinstance(node.ops[0], ast.In) \
                and isinstance(node.comparators[0], ast.Tuple) and isinstance(node.left, ast.Attribute) \
                and node.left.attr == 'dimension':
            if units is not None:
                raise R.Untranslatable('do_css_Value: two unit lists')
            units = [e.value for e in node.comparators[0].elts]
        if isinstance(node, ast.BinOp) and isinstance(node.op, ast.Mod) and isinstance(node.left, ast.Constant) \
                and isinstance(node.left.value, str):
            fmts.add(node.left.value)
    if units is None or not all(isinstance(u, str) for u in units):
        raise R.Untranslatable('do_css_Value: zero-length unit list not found')
    if fmts != {'%f'}:
        raise R.Untranslatable('do_css_Value: number format is %r, expected %%f' % sorted(fmts))
    return units


def generate():
    import cssutils  # noqa: F401
    from cssutils import helper, prodparser, serialize
    from cssutils.css import value as V
    from cssutils.css import colors
    out = [header('GenValue', ['cssutils/css/value.py', 'cssutils/css/colors.py', 'cssutils/serialize.py',
                               'cssutils/helper.py', 'cssutils/prodparser.py'])]
    info = []
    em = R.Emitter('val')
    rx = V.DimensionValue._DimensionValue__reUnNumDim
    g1, g2, g3 = numdim_groups(rx)
    for nm, t in (('sign', g1), ('num', g2)):
        if R.has_nullable_loop(t):
            raise R.Untranslatable('__reUnNumDim group %s: nullable loop' % nm)
    hexs = []
    for nm, r in (('value', V.reHexcolor), ('predef', prodparser.PreDef.reHexcolor)):
        # applied by the model as a full match (Model/Color.v valid_hash), which is what ^...\Z with match() is
        t = R.translate(r.pattern, r.flags, drop_bol=True, drop_eos=True)
        if R.nullable(t) or R.has_nullable_loop(t):
            raise R.Untranslatable('reHexcolor (%s) nullable' % nm)
        hexs.append((nm, t))
    forb = helper._match_forbidden_in_uri.__self__
    tf = R.translate(forb.pattern, forb.flags)
    if R.has_nullable_loop(tf):
        raise R.Untranslatable('_match_forbidden_in_uri: nullable loop')
    em.prepare([g1, g2, g3, tf] + [t for _, t in hexs])
    em.define('re_numdim_sign', g1)
    em.define('re_numdim_num', g2)
    em.define('re_numdim_rest', g3)
    for nm, t in hexs:
        em.define('re_hexcolor_' + nm, t)
    em.define('re_forbidden_in_uri', tf)
    out.append(em.text())
    for nm, t in (('re_numdim_sign', g1), ('re_numdim_num', g2), ('re_numdim_rest', g3), ('re_forbidden_in_uri', tf)) \
            + tuple(('re_hexcolor_' + n, t) for n, t in hexs):
        info.append({'name': 'GenValue.' + nm, 'source': 'value.py/prodparser.py/helper.py regex', 'hash': R.tree_hash(t)})
    # colour table
    rows = []
    for k, v in colors.COLORS.items():
        if not (isinstance(k, str) and len(v) == 4 and all(isinstance(x, int) and 0 <= x for x in v[:3])
                and isinstance(v[3], float) and v[3] in (0.0, 1.0)):
            raise R.Untranslatable('COLORS[%r] = %r' % (k, v))
        rows.append('(%s, (%d, %d, %d, %d))' % (coq_str(k), v[0], v[1], v[2], int(v[3])))
    if V.ColorValue.COLORS is not colors.COLORS:
        raise R.Untranslatable('ColorValue.COLORS is not colors.COLORS')
    out.append('(* name -> (red, green, blue, alpha) ; alpha is the float 0.0 or 1.0 *)\n'
               'Definition color_table : list (str * (N * N * N * N)) :=\n  [%s].\n' % ';\n   '.join(rows))
    info.append({'name': 'GenValue.color_table', 'source': 'cssutils/css/colors.py COLORS (%d names)' % len(rows),
                 'hash': R.tree_hash(tuple(rows))})
    units = _do_css_value_constants(serialize.CSSSerializer.do_css_Value)
    out.append('Definition zero_units : list str := [%s].\n' % '; '.join(coq_str(u) for u in units))
    info.append({'name': 'GenValue.zero_units', 'source': 'serialize.py do_css_Value: %s' % ','.join(units), 'hash': ''})
    # str.strip() without arguments removes str.isspace() characters
    sp = R._ranges([c for c in range(R.MAXCP) if chr(c).isspace()])
    out.append('Definition py_space : cls := [%s].\n' % '; '.join('(%d, %d)' % r for r in sp))
    info.append({'name': 'GenValue.py_space', 'source': 'str.isspace() of the running CPython', 'hash': R.tree_hash(sp)})
    out.append(PRELUDE)
    h = Py2Gallina(serialize.CSSSerializer._hash, 'ser_hash', {'val': 'str'})
    out.append(h.translate())
    z = Py2Gallina(serialize.CSSSerializer._strip_zeros, 'strip_zeros', {'s': 'str'})
    out.append(z.translate())
    if h.prefs != ['minimizeColorHash'] or z.prefs:
        raise R.Untranslatable('preferences read by _hash/_strip_zeros: %r %r' % (h.prefs, z.prefs))
    info.append({'name': 'GenValue.ser_hash', 'source': 'serialize.py CSSSerializer._hash (AST translated)', 'hash': ''})
    info.append({'name': 'GenValue.strip_zeros', 'source': 'serialize.py CSSSerializer._strip_zeros (AST translated)', 'hash': ''})
    return ''.join(out), info
