"""Regenerate every coq/Gen/*.v from /repo's working tree.
usage: PYTHONPATH=/repo /venv/bin/python -m translator.gen [names...]
Writes a file only when its content changed; prints a JSON summary."""
import importlib
import json
import os
import sys
import traceback

HERE = os.path.dirname(os.path.abspath(__file__))
GEN = os.path.join(HERE, '..', 'coq', 'Gen')

def _discover():
    """every translator/gen_<x>.py with a generate() function produces coq/Gen/<NAME>.v
    (NAME attribute, default Gen<X>)"""
    import glob
    mods = {}
    for f in sorted(glob.glob(os.path.join(HERE, 'gen_*.py'))):
        base = os.path.basename(f)[:-3]
        mod = importlib.import_module('translator.' + base)
        if hasattr(mod, 'generate'):
            mods[getattr(mod, 'NAME', 'Gen' + base[4:].capitalize())] = 'translator.' + base
    return mods


MODULES = _discover()


def main(argv):
    names = argv or list(MODULES)
    summary = {'ok': True, 'files': {}, 'errors': {}}
    from . import regex2coq
    for n in names:
        try:
            mod = importlib.import_module(MODULES[n])
            text, info = mod.generate()
            path = os.path.join(GEN, n + '.v')
            old = None
            if os.path.exists(path):
                with open(path) as f:
                    old = f.read()
            changed = old != text
            if changed:
                with open(path, 'w') as f:
                    f.write(text)
            summary['files'][n] = {'changed': changed, 'definitions': info, 'bytes': len(text)}
        except Exception as e:  # fail-closed: reported as a broken tie
            summary['ok'] = False
            summary['errors'][n] = '%s: %s' % (type(e).__name__, e)
            traceback.print_exc(file=sys.stderr)
    regex2coq.save_cache()
    json.dump(summary, sys.stdout)
    return 0 if summary['ok'] else 2


if __name__ == '__main__':
    sys.exit(main(sys.argv[1:]))
