"""Regenerate coq/Gen/GenMedia.v: the known media types (live
MediaQuery.MEDIA_TYPES) and the keywords the media-query grammar compares
normalised identifiers with ('only'/'not', 'and' from the match lambdas of
MediaQuery._setMediaText, 'all' from MediaList).  Fail-closed: if a keyword
can no longer be found in the code constants the generator raises."""
from .emit import coq_str, header

NAME = 'GenMedia'


def _consts(code, seen=None):
    """all constants reachable from a code object (nested lambdas included)"""
    out = []
    for c in code.co_consts:
        if hasattr(c, 'co_consts'):
            out += _consts(c)
        else:
            out.append(c)
    return out


def generate():
    from cssutils.stylesheets import MediaList, MediaQuery
    from . import regex2coq as R
    types = list(MediaQuery.MEDIA_TYPES)
    if not types or not all(isinstance(t, str) and t and t == t.lower() for t in types):
        raise R.Untranslatable('MEDIA_TYPES is not a list of lower-case names: %r' % (types,))
    qc = _consts(MediaQuery._setMediaText.__code__)
    negs = None
    for c in qc:
        if isinstance(c, (tuple, frozenset)) and set(c) == {'only', 'not'}:
            negs = sorted(c, reverse=True)  # only, not
    if negs is None:
        raise R.Untranslatable("('only', 'not') not found in MediaQuery._setMediaText")
    if 'and' not in qc:
        raise R.Untranslatable("'and' not found in MediaQuery._setMediaText")
    lc = _consts(MediaList._setMediaText.__code__) + _consts(MediaList.appendMedium.__code__)
    if 'all' not in lc:
        raise R.Untranslatable("'all' not found in MediaList")
    if 'all' not in types:
        raise R.Untranslatable("'all' is not a media type")
    out = [header('GenMedia', ['cssutils/stylesheets/mediaquery.py', 'cssutils/stylesheets/medialist.py'])]
    out.append('Definition media_types : list (list N) :=\n  [%s].\n' % ';\n   '.join(coq_str(t) for t in types))
    out.append('Definition kw_only : list N := %s.\n' % coq_str(negs[0]))
    out.append('Definition kw_not : list N := %s.\n' % coq_str(negs[1]))
    out.append('Definition kw_and : list N := %s.\n' % coq_str('and'))
    out.append('Definition kw_all : list N := %s.\n' % coq_str('all'))
    info = [{'name': 'GenMedia.media_types', 'source': 'cssutils.stylesheets.MediaQuery.MEDIA_TYPES (%d)' % len(types),
             'hash': ','.join(types)},
            {'name': 'GenMedia.kw_only/kw_not/kw_and/kw_all', 'source': 'code constants of MediaQuery._setMediaText, MediaList._setMediaText/appendMedium',
             'hash': 'only,not,and,all'}]
    return ''.join(out), info
